"""C12 - MEEM non-volatile PM (PMnvol_MEEM) under contract: every operation defined on valid data, indices finite and
non-negative, mass and number indices linear in the certification indices they are interpolated from."""
from __future__ import annotations

import z3

from contracts.C12 import call, generic_k, rv
from pyvc.models.arrays import SArr
from pyvc.source import Unsupported
from pyvc.values import PyExc, to_real, to_z3
from pyvc.verify import unit


def meem(h, use_sn, et):
    """MEEM along a trajectory of any length: every returned index is defined (no division by zero, no root / power /
    logarithm outside its domain), non-negative, and the mass and number indices are linear in the certification
    indices they are interpolated from (measured nvPM matrices with their optional maximum values)."""
    from pyvc.models import mathfn
    I = h.I
    h.trust('np.interp on the fixed thrust grids: piece-wise linear, exact at nodes, clamped outside; np.diff(a, prepend=a[0])[k] = a[k] - a[k-1] (0 for k = 0); '
            'ndarray.max() is an upper bound attained by an element; pow(a, b) > 0 for a > 0')
    TMV = I.lookup_fq('AEIC.performance.types:ThrustModeValues')

    def tm(name, cond):
        vals = [h.real(f'{name}_{i}') for i in range(4)]
        for v in vals:
            h.assume(cond(v))
        return vals
    sn = tm('SN', lambda v: v > 0)
    mass = tm('nvPM_mass', lambda v: v > 0)
    num = tm('nvPM_num', lambda v: v > 0)
    h.ctx.assumed.append('positive certification data: smoke numbers, nvPM mass / number indices > 0; pressure ratio > 1; ambient T, P > 0; Mach >= 0; bypass ratio >= 0')
    pr = h.real('pressure_ratio')
    h.assume(pr > 1)
    bpr = h.real('bypass_ratio')
    h.assume(bpr >= 0)
    h.ctx.named['engine_type'] = z3.StringVal(et)
    h.ctx.named['indices_from_smoke_numbers'] = z3.BoolVal(use_sn)
    mk = h.choice(3)
    mmax, mthr = [(-1, -1), (h.real('EImass_max'), rv('0.575')), (h.real('EImass_max'), rv('0.925'))][mk]
    nk = h.choice(3) if not use_sn else 0
    nmax, nthr = [(-1, -1), (h.real('EInum_max'), rv('0.575')), (h.real('EInum_max'), rv('0.925'))][nk]
    if mk:
        h.assume(mmax > 0)
    if nk:
        h.assume(nmax > 0)
    n = h.int('n_points')
    h.assume(n >= 1)
    alt = SArr.symbolic(h.ctx, 'altitude', n)
    T = SArr.symbolic(h.ctx, 'Tamb', n, where=lambda v: v > 0)
    P = SArr.symbolic(h.ctx, 'Pamb', n, where=lambda v: v > 0)
    M = SArr.symbolic(h.ctx, 'mach', n, where=lambda v: v >= 0)
    amax = h.real('max_altitude')

    def diff(I_, a, prepend=None, **kw):
        if prepend is None:
            raise Unsupported('np.diff without prepend')
        g = a.snapshot()
        return SArr(a.length, lambda k: z3.If(to_z3(k) == 0, to_real(g.at(0)) - to_real(prepend), to_real(g.at(k)) - to_real(g.at(to_z3(k) - 1))))
    I.models['numpy.diff'] = diff
    I.hooks['array_max'] = lambda a: amax if a is alt else None
    orig_where = I.models['numpy.where']
    I.models['numpy.where'] = lambda I_, c, *rest: orig_where(I_, c, *rest) if rest else ('indices-where', c)

    def concat(I_, parts, **kw):
        out = []
        for p in parts:
            out += list(I_.iterate(p))
        return SArr.from_list(out)
    I.models['numpy.concatenate'] = concat

    def run(scale):
        sc = lambda vs: [scale * v for v in vs]      # noqa
        e = h.new('AEIC.performance.edb:EDBEntry', engine='E', uid='U', engine_type=et, BP_Ratio=bpr, rated_thrust=h.real('rated'),
                  SN_matrix=I.call(TMV, list(sn), {}),
                  nvPM_mass_matrix=I.call(TMV, [-1, -1, -1, -1] if use_sn else sc(mass), {}),
                  nvPM_num_matrix=I.call(TMV, [-1, -1, -1, -1] if use_sn else sc(num), {}),
                  PR=I.call(TMV, [pr, pr, pr, pr], {}), EImass_max=(scale * mmax if mk else -1), EImass_max_thrust=mthr,
                  EInum_max=(scale * nmax if nk else -1), EInum_max_thrust=nthr, _partial=True)
        return call(h, 'AEIC.emissions.ei.pmnvol:PMnvol_MEEM', e, alt, T, P, M)
    # record what the interpolations are asked for (the reference thrust setting of each point)
    interp_model = I.models['numpy.interp']
    interp_x = []

    def interp(I_, x, xp, fp, **kw):
        interp_x.append(x)
        return interp_model(I_, x, xp, fp, **kw)
    I.models['numpy.interp'] = interp
    try:
        g1 = run(1)
    except PyExc as e:
        import os, sys
        if os.environ.get('VERIF_DEBUG'):
            print('MEEM-EXC', repr(e.inst), e.inst.where, file=sys.stderr, flush=True)
        h.fail('every-operation-is-defined-on-valid-data', f'{e.inst!r} at {e.inst.where}')
        return
    k = generic_k(h, n)
    gmd, em, en = (to_real(a.at(k)) for a in g1)
    h.ensure('one-value-per-point', z3.And(*[to_z3(I.len_(a)) == n for a in g1]))
    h.ensure('indices-non-negative', z3.And(gmd >= 0, em >= 0, en >= 0))
    if not use_sn:
        try:
            g3 = run(3)
        except PyExc as e:
            import os, sys
            if os.environ.get('VERIF_DEBUG'):
                print('MEEM-EXC3', repr(e.inst), e.inst.where, file=sys.stderr, flush=True)
            h.fail('every-operation-is-defined-on-valid-data', f'{e.inst!r} at {e.inst.where}')
            return
        goal = z3.And(to_real(g3[1].at(k)) == 3 * em, to_real(g3[2].at(k)) == 3 * en, to_real(g3[0].at(k)) == gmd)
        # Generalise, then prove: the reference thrust setting of the point and every power / exponential in the goal are
        # replaced by fresh real variables.  What remains are the interpolation chains over the fixed thrust grid with the
        # (scaled) certification values as node values, times common factors - a statement about piece-wise linear
        # interpolation that holds for *every* thrust setting and every value of the factors, hence for the ones of the code.
        subs = []
        for x in interp_x:
            t = to_z3(x.at(k)) if isinstance(x, SArr) else to_z3(x)
            if z3.is_expr(t) and not z3.is_rational_value(t) and all(t.get_id() != a.get_id() for a, _ in subs):
                v = h.ctx.fresh('thrust_setting', z3.RealSort())
                subs.append((t, v))
                ts = z3.simplify(t)         # comparisons are simplified when they are made: the same value in its normal form
                if ts.get_id() != t.get_id():
                    subs.append((ts, v))
        seen, stack = set(), [goal]
        while stack:
            u = stack.pop()
            if u.get_id() in seen:
                continue
            seen.add(u.get_id())
            if z3.is_app(u) and u.decl().kind() == z3.Z3_OP_UNINTERPRETED and u.num_args() > 0 and u.decl().name() in ('pow_', 'exp_', 'ln', 'log10', 'sqrt_'):
                if all(u.get_id() != a.get_id() for a, _ in subs):
                    subs.append((u, h.ctx.fresh('factor', z3.RealSort())))
                continue
            stack.extend(u.children())
        first = [p for p in subs if 'thrust_setting' in str(p[1])]
        general = z3.substitute(goal, *first) if first else goal
        rest = []
        seen, stack = set(), [general]
        while stack:
            u = stack.pop()
            if u.get_id() in seen:
                continue
            seen.add(u.get_id())
            if z3.is_app(u) and u.decl().kind() == z3.Z3_OP_UNINTERPRETED and u.num_args() > 0 and u.decl().name() in ('pow_', 'exp_', 'ln', 'log10', 'sqrt_'):
                rest.append((u, h.ctx.fresh('factor', z3.RealSort())))
                continue
            stack.extend(u.children())
        general = z3.substitute(general, *rest) if rest else general
        subs = first + rest
        facts = [v > 0 for v in mass + num] + ([mmax > 0] if mk else []) + ([nmax > 0] if nk else [])
        h.ensure_from('mass-and-number-indices-scale-linearly-with-the-certification-indices', general, facts,
                      note=f'generalised over {len(subs)} sub-terms (thrust setting, powers)')




for _sn in (False, True):
    for _et in ('TF', 'MTF'):
        unit('C12', f"meem[{'smoke-numbers' if _sn else 'measured-nvPM'},{_et}]", ['AEIC.emissions.ei.pmnvol:PMnvol_MEEM'],
             replay='contracts.C12:replay_meem', max_paths=int(__import__('os').environ.get('MEEM_MAX_PATHS', '200')), timeout_ms=4000, max_seconds=240)(
            (lambda sn_, et_: (lambda h: meem(h, sn_, et_)))(_sn, _et))
