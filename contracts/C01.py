"""C01 -- the emissions inventory balances: totals equal parts, parts equal EI x fuel.

Modular: each source function (trajectory, LTO, APU, GSE), the summation and the top-level
compute_emissions has its own unit; the emissions options are symbolic (setup_config), the species
loops run over the real Species enum, arrays have symbolic length.
"""
from __future__ import annotations

import z3

from contracts import emis
from contracts.emis import E, SPECIES, Sums, internal_error, sv_data
from pyvc.models.arrays import SArr
from pyvc.source import Unsupported
from pyvc.values import Obj, PyExc, to_real, to_z3
from pyvc.verify import unit

LEVEL = 'proof'
EXPLANATION = ('Per-function contracts of the emissions inventory (sum_total_emissions, get_trajectory_emissions, '
               'get_LTO_emissions, get_APU_emissions, get_GSE_emissions, compute_emissions) with symbolic options, symbolic '
               'array lengths and prefix-sum reasoning (inductive lemmas proved by base + step).')
Z = z3.IntSort()


def tmv_items(o):
    return dict(o.attrs['_data'])


def tmv_sum(o, modes):
    d = tmv_items(o)
    return sum([to_real(d[m]) for m in modes if m in d] or [z3.RealVal(0)])


@unit('C01', 'sum_total_emissions', [f'{E}.emission:sum_total_emissions'], replay='contracts.C01:replay', max_paths=400)
def sum_total(h):
    """Each species' total = trajectory sum + LTO modes + APU + GSE, absent parts counting 0.  Species i
    is given presence pattern (i + shift) mod 16 over the four maps; the 16 shifts give every
    species every pattern."""
    I = h.I
    ec = emis.setup_config(h)
    S, sp = emis.species_enum(h)
    TM, modes = emis.thrust_modes(h)
    sums = Sums(h)
    n = h.int('n_points')
    h.assume(n >= 1)
    shift = h.choice(16)
    SV = I.lookup_fq('AEIC.types.species:SpeciesValues')
    traj, lto, apu, gse = {}, {}, {}, {}
    for i, name in enumerate(SPECIES):
        pat = (i + shift) % 16
        if pat & 1:
            traj[sp[name]] = SArr.symbolic(h.ctx, 'traj_' + name, n)
        if pat & 2:
            lto[sp[name]] = emis.tmv(h, 'lto_' + name, cond=None)[0]
        if pat & 4:
            apu[sp[name]] = h.real('apu_' + name)
        if pat & 8:
            gse[sp[name]] = h.real('gse_' + name)
    mk = lambda d: I.call(SV, [d], {})     # noqa
    r = h.call(f'{E}.emission:sum_total_emissions', trajectory=mk(traj), lto=mk(lto), apu=mk(apu), gse=mk(gse))
    got = sv_data(r)
    h.ensure('a-total-for-every-species', set(k.name for k in got) == set(SPECIES))
    apu_on, gse_on = ec.attrs['apu_enabled'], ec.attrs['gse_enabled']
    conj = []
    for name in SPECIES:
        s = sp[name]
        want = z3.RealVal(0)
        if s in traj:
            want = want + sums.sum_of(I, traj[s], 0, n)
        if s in lto:
            want = want + tmv_sum(lto[s], modes)
        if s in apu:
            want = want + z3.If(apu_on, apu[s], 0)
        if s in gse:
            want = want + z3.If(gse_on, gse[s], 0)
        conj.append(to_real(got[s]) == want if s in got else z3.BoolVal(False))
    h.ensure('total-equals-sum-of-trajectory-lto-apu-gse', z3.And(*conj))


def replay(payload):
    """The native inventory check shared with C11: the option combination of the counter-model plus a fixed sample of
    combinations on a synthetic trajectory; every species' total must equal trajectory + LTO + APU + GSE (+ life cycle)."""
    from contracts import C11
    return C11.replay(payload)


# -------------------------------------------------------------------------------------------------
LTO_TIMS = {'IDLE': 26 * 60, 'APPROACH': 4 * 60, 'CLIMB': z3.RealVal('2.2') * 60, 'TAKEOFF': z3.RealVal('0.7') * 60}


def run_lto(h, fixed=None):
    I = h.I
    ec = emis.setup_config(h, fixed)
    S, sp = emis.species_enum(h)
    TM, modes = emis.thrust_modes(h)
    emis.kernel_contracts(h, h.int('n_points'))
    fuel = emis.make_fuel(h)
    lto = emis.make_lto(h)
    edb = 'edb-entry'
    pm = emis.PM(lto=lto, edb=edb)
    return I, ec, sp, modes, fuel, lto, pm


def enabled(h, ec, name):
    """The documented switch of a species (independent of the code's enabled_species)."""
    a = ec.attrs
    NOx = h.I.lookup_fq(f'{emis.CFG}:EINOxMethod')
    PMv = h.I.lookup_fq(f'{emis.CFG}:PMvolMethod')
    PMn = h.I.lookup_fq(f'{emis.CFG}:PMnvolMethod')

    def ne_none(v, cls):
        none = next(m for m in cls.members if m.name == 'NONE')
        return h.I.compare('!=', v, none)
    if name == 'CO2':
        return a['co2_enabled']
    if name == 'H2O':
        return a['h2o_enabled']
    if name == 'HC':
        return ne_none(a['hc_method'], NOx)
    if name == 'CO':
        return ne_none(a['co_method'], NOx)
    if name in ('NOx', 'NO', 'NO2', 'HONO'):
        return ne_none(a['nox_method'], NOx)
    if name in ('PMvol', 'OCic'):
        return ne_none(a['pmvol_method'], PMv)
    if name in ('PMnvol', 'PMnvolGMD'):
        return ne_none(a['pmnvol_method'], PMn)
    if name == 'PMnvolN':
        return h.I.contains(tuple(m for m in PMn.members if m.name in ('SCOPE11', 'MEEM')), a['pmnvol_method'])
    return a['sox_enabled']


def zb(v):
    return v if z3.is_expr(v) else z3.BoolVal(bool(v))


LTO_FUNCS = [f'{E}.lto:get_LTO_emissions', f'{E}.lto:_lto_nox', f'{E}.lto:_lto_pmvol', f'{E}.lto:_lto_pmnvol',
             f'{E}.utils:constant_species_values', 'AEIC.config.emissions:EmissionsConfig.enabled_species']


def lto_unit(h, fixed=None):
    I, ec, sp, modes, fuel, lto, pm = run_lto(h, fixed)
    try:
        r = h.call(f'{E}.lto:get_LTO_emissions', pm, fuel)
    except PyExc as e:
        if internal_error(e):
            h.fail('no-internal-error', repr(e.inst) + ' at ' + str(e.inst.where))
        else:
            h.ensure('refusal-names-the-unsupported-method', h.exc_is(e, 'NotImplementedError') or h.exc_is(e, 'ValueError'),
                     note=repr(e.inst))
        return
    ind, em, fb = sv_data(h.getattr(r, 'indices')), sv_data(h.getattr(r, 'emissions')), to_real(h.getattr(r, 'fuel_burn'))
    ff = tmv_items(lto.attrs['fuel_flow'])
    cdm = ec.attrs['climb_descent_mode']
    CDM = h.I.lookup_fq(f'{emis.CFG}:ClimbDescentMode')
    traj_mode = zb(h.I.compare('==', cdm, next(m for m in CDM.members if m.name == 'TRAJECTORY')))
    # fuel burned per mode: time in mode x fuel flow; approach and climb-out are the trajectory's in 'trajectory' mode
    mode_fuel = {}
    for m in modes:
        f = LTO_TIMS[m.name] * to_real(ff[m])
        if m.name in ('APPROACH', 'CLIMB'):
            f = z3.If(traj_mode, 0, f)
        mode_fuel[m] = f
    h.ensure('fuel-burn-is-time-in-mode-times-fuel-flow', fb == sum(mode_fuel.values()))
    h.ensure('same-species-in-indices-and-amounts', set(ind) == set(em))
    conj, nonneg = [], []
    for s in ind:
        di, de = tmv_items(ind[s]), tmv_items(em[s])
        for m in modes:
            i_v = to_real(di[m]) if m in di else z3.RealVal(0)
            e_v = to_real(de[m]) if m in de else z3.RealVal(0)
            conj.append(e_v == i_v * mode_fuel[m])
            nonneg.append(z3.And(i_v >= 0, e_v >= 0))
    h.ensure('amount-equals-index-times-mode-fuel', z3.And(*conj) if conj else True)
    h.ensure('non-negative', z3.And(*nonneg) if nonneg else True)
    # species switched off are absent or zero
    off = []
    for s in ind:
        on = zb(enabled(h, ec, s.name))
        di = tmv_items(ind[s])
        off.append(z3.Or(on, z3.And(*[to_real(v) == 0 for v in di.values()]) if di else True))
    h.ensure('switched-off-species-absent-or-zero', z3.And(*off) if off else True)
    # constant-EI species: CO2 / H2O indices are the fuel's, so CO2 amount = EI x LTO fuel
    for nm, ei in (('CO2', fuel.attrs['EI_CO2']), ('H2O', fuel.attrs['EI_H2O'])):
        s = sp[nm]
        if s in em:
            h.ensure('co2-h2o-equal-fuel-ei-times-lto-fuel', tmv_sum(em[s], modes) == to_real(ei) * fb, note=nm)
    for tot, parts in (('NOx', ('NO', 'NO2', 'HONO')), ('SOx', ('SO2', 'SO4'))):
        if sp[tot] in em:
            if not all(sp[p] in em for p in parts):
                h.fail('speciation-adds-up', f'{tot} present without all of {parts}')
                continue
            for m in modes:
                tv = tmv_items(em[sp[tot]])
                h.ensure('speciation-adds-up', to_real(tv.get(m, 0)) == sum(to_real(tmv_items(em[sp[p]]).get(m, 0)) for p in parts),
                         note=f'{tot} {m.name}')


def _variants(prefix, fn, funcs, **kw):
    """The option space is split over the three constant-species switches (8 units explored in parallel);
    every other option stays symbolic inside each unit."""
    for co2 in (False, True):
        for h2o in (False, True):
            for sox in (False, True):
                fixed = dict(co2_enabled=co2, h2o_enabled=h2o, sox_enabled=sox)
                tag = ''.join('1' if x else '0' for x in (co2, h2o, sox))
                unit('C01', f'{prefix}[co2,h2o,sox={tag}]', funcs, **kw)((lambda fx: (lambda h: fn(h, fx)))(fixed))


_variants('get_LTO_emissions', lto_unit, LTO_FUNCS, replay='contracts.C11:replay', max_paths=60000)


@unit('C01', 'get_GSE_emissions', [f'{E}.gse:get_GSE_emissions', f'{E}.gse:_gse_nominal_profile'], replay='contracts.C11:replay')
def gse_unit(h):
    I = h.I
    emis.setup_config(h)
    S, sp = emis.species_enum(h)
    fuel = emis.make_fuel(h)
    AC = I.lookup_fq('AEIC.types:AircraftClass')
    ac = AC.members[h.choice(len(AC.members))]
    r = h.call(f'{E}.gse:get_GSE_emissions', ac, fuel)
    em = sv_data(h.getattr(r, 'emissions'))
    fb = to_real(h.getattr(r, 'fuel_burn'))
    g = lambda n: to_real(em[sp[n]])    # noqa
    h.ensure('co2-equals-fuel-ei-times-gse-fuel', g('CO2') == to_real(fuel.attrs['EI_CO2']) * fb)
    h.ensure('h2o-equals-fuel-ei-times-gse-fuel', g('H2O') == to_real(fuel.attrs['EI_H2O']) * fb)
    h.ensure('speciation-adds-up', z3.And(g('NO') + g('NO2') + g('HONO') == g('NOx'), g('SO2') + g('SO4') == g('SOx')))
    h.ensure('non-negative', z3.And(fb >= 0, *[to_real(v) >= 0 for v in em.values()]))


@unit('C01', 'get_APU_emissions', [f'{E}.apu:get_APU_emissions'], replay='contracts.C11:replay')
def apu_unit(h):
    """lto_indices as get_LTO_emissions produces them: a species is present iff it is switched on (its
    contract, proved in the get_LTO_emissions unit)."""
    I = h.I
    ec = emis.setup_config(h)
    S, sp = emis.species_enum(h)
    TM, modes = emis.thrust_modes(h)
    fuel = emis.make_fuel(h)
    SV = I.lookup_fq('AEIC.types.species:SpeciesValues')
    d = {}
    sox_on = h.I.truth(ec.attrs['sox_enabled'])
    if sox_on:
        for nm in ('SOx', 'SO2', 'SO4'):
            d[sp[nm]] = emis.tmv(h, 'lto_' + nm)[0]
        h.ctx.assume(to_real(tmv_items(d[sp['SOx']])[modes[0]]) == to_real(tmv_items(d[sp['SO2']])[modes[0]]) + to_real(tmv_items(d[sp['SO4']])[modes[0]]))
    lto_indices = I.call(SV, [d], {})
    ffv = h.real('apu_fuel_kg_per_s')
    h.assume(ffv >= 0, 'APU fuel flow >= 0')
    nx, co, hc, pm10 = (h.real('apu_' + n) for n in ('NOx', 'CO', 'HC', 'PM10'))
    h.assume(z3.And(nx >= 0, co >= 0, hc >= 0, pm10 >= 0), 'APU emission indices >= 0')
    apu = h.new('AEIC.performance.apu:APU', name='a', defra='0', fuel_kg_per_s=ffv, NOx_g_per_kg=nx, CO_g_per_kg=co,
                HC_g_per_kg=hc, PM10_g_per_kg=pm10)
    try:
        r = h.call(f'{E}.apu:get_APU_emissions', lto_indices, apu, fuel)
    except PyExc as e:
        h.fail('no-internal-error', f'{e.inst!r} at {e.inst.where} (sox_enabled={sox_on})')
        return
    ind, em, fb = sv_data(h.getattr(r, 'indices')), sv_data(h.getattr(r, 'emissions')), to_real(h.getattr(r, 'fuel_burn'))
    h.ensure('fuel-burn-is-900s-of-apu-fuel-flow', fb == ffv * 900)
    h.ensure('amount-equals-index-times-apu-fuel', z3.And(*[to_real(em[s]) == to_real(ind[s]) * fb for s in ind]))
    g = lambda n: to_real(em[sp[n]])    # noqa
    h.ensure('speciation-adds-up', z3.And(g('NO') + g('NO2') + g('HONO') == g('NOx'), g('SO2') + g('SO4') == g('SOx')))
    # carbon balance precondition: the mass-balance CO2 index is non-negative only if the carbon in CO/HC/PM stays below 3160 g/kg
    carb = (z3.RealVal(44) / 28) * co + (z3.RealVal(44) / (z3.RealVal(82) / 5)) * hc + (z3.RealVal(44) / (z3.RealVal(55) / 4)) * to_real(ind[sp['PMvol']]) \
        + (z3.RealVal(44) / 12) * z3.RealVal('0.95') * to_real(ind[sp['PMnvol']])
    h.ensure('non-negative', z3.Implies(carb <= 3160, z3.And(fb >= 0, *[to_real(v) >= 0 for v in em.values()])))


# -------------------------------------------------------------------------------------------------
TRAJ_FUNCS = [f'{E}.trajectory:get_trajectory_emissions', f'{E}.trajectory:_trajectory_slice', f'{E}.trajectory:compute_EI_NOx',
              f'{E}.trajectory:_calculate_EI_PMvol', f'{E}.trajectory:_calculate_EI_PMnvol',
              f'{E}.trajectory:_thrust_percentages_from_categories', f'{E}.utils:constant_species_values',
              f'{E}.utils:get_thrust_cat_cruise', 'AEIC.config.emissions:EmissionsConfig.enabled_species',
              'AEIC.performance.types:ThrustModeValues.broadcast']


def traj_unit(h, fixed=None, whole_kg=False):
    I = h.I
    ec = emis.setup_config(h, fixed)
    S, sp = emis.species_enum(h)
    sums = Sums(h)
    n = h.int('n_points')
    h.assume(n >= 1, 'a trajectory has at least one point')
    emis.kernel_contracts(h, n)
    fuel = emis.make_fuel(h)
    lto = emis.make_lto(h)
    traj, fm, nc, nd = emis.make_traj(h, n)
    if whole_kg:
        # fuel masses recorded in whole kilograms: an integer array (its differences, the segment fuel, are integers too)
        fb = SArr.symbolic(h.ctx, 'fuel_burn_per_segment_whole_kg', n, sort=z3.IntSort(), where=lambda v: v >= 0)
        h.ctx.named['fuel_masses_are_integers'] = z3.BoolVal(True)
    else:
        fb = SArr.symbolic(h.ctx, 'fuel_burn_per_segment', n, where=lambda v: v >= 0)
    pm = emis.PM(lto=lto, edb='edb-entry', number_of_engines=2)
    try:
        r = h.call(f'{E}.trajectory:get_trajectory_emissions', pm, traj, fb, fuel)
    except PyExc as e:
        if internal_error(e):
            h.fail('no-internal-error', f'{e.inst!r} at {e.inst.where}')
        else:
            h.ensure('refusal-names-the-unsupported-method',
                     (h.exc_is(e, 'NotImplementedError') or h.exc_is(e, 'RuntimeError')) and emis.names_method(e, ec, h), note=repr(e.inst))
        return
    ind, em = sv_data(h.getattr(r, 'indices')), sv_data(h.getattr(r, 'emissions'))
    tfb = to_real(h.getattr(r, 'fuel_burn'))
    CDM = I.lookup_fq(f'{emis.CFG}:ClimbDescentMode')
    traj_mode = zb(I.compare('==', ec.attrs['climb_descent_mode'], next(m for m in CDM.members if m.name == 'TRAJECTORY')))
    start = z3.If(traj_mode, 0, nc)
    stop = z3.If(traj_mode, n, n - nd)
    psf = sums.ps(fb.fn)
    h.ensure('fuel-burn-is-the-sum-over-the-accounting-window', tfb == psf(stop) - psf(start))
    h.ensure('same-species-in-indices-and-amounts', set(ind) == set(em))
    k = h.ctx.fresh('k', Z)
    h.ctx.assume(z3.And(k >= 0, k < n))
    inwin = z3.And(k >= start, k < stop)
    conj, nonneg, off = [], [], []
    for s in ind:
        iv, ev = to_real(ind[s].at(k)), to_real(em[s].at(k))
        conj.append(z3.And(ev == iv * to_real(fb.at(k)), z3.Implies(z3.Not(inwin), z3.And(iv == 0, ev == 0))))
        nonneg.append(z3.And(iv >= 0, ev >= 0))
        off.append(z3.Or(zb(enabled(h, ec, s.name)), z3.And(iv == 0, ev == 0)))
    h.ensure('segment-amount-equals-index-times-segment-fuel-and-zero-outside-the-window', z3.And(*conj) if conj else True)
    h.ensure('non-negative', z3.And(*nonneg) if nonneg else True)
    h.ensure('switched-off-species-absent-or-zero', z3.And(*off) if off else True)
    for tot, parts in (('NOx', ('NO', 'NO2', 'HONO')), ('SOx', ('SO2', 'SO4'))):
        if sp[tot] in em:
            if not all(sp[p] in em for p in parts):
                h.fail('speciation-adds-up', f'{tot} present without all of {parts}')
            else:
                h.ensure('speciation-adds-up', to_real(em[sp[tot]].at(k)) == sum(to_real(em[sp[p]].at(k)) for p in parts), note=tot)
    # every kilogram counted once: sum of CO2 (H2O) amounts = fuel EI x window fuel, by induction on the prefix sums
    for nm, ei in (('CO2', fuel.attrs['EI_CO2']), ('H2O', fuel.attrs['EI_H2O'])):
        if sp[nm] in em:
            window_sum_lemma(h, sums, em[sp[nm]], fb, to_real(ei), start, stop, n, nm)


def window_sum_lemma(h, sums, em, fb, ei, start, stop, n, tag):
    """Sum_k em(k) = ei * Sum_{start <= k < stop} fb(k), where em(k) = ei*fb(k) inside the window and 0 outside.
    Induction on m for  P(m): PS_em(m) = ei * (PS_fb(cl(m)) - PS_fb(start)),  cl(m) = min(max(m, start), stop)."""
    pse, psf = sums.ps(em.fn), sums.ps(fb.fn)
    m = h.ctx.fresh('m', Z)
    cl = lambda x: z3.If(x < start, start, z3.If(x > stop, stop, x))     # noqa
    P = lambda x: pse(x) == ei * (psf(cl(x)) - psf(start))               # noqa
    rng = [start >= 0, start <= stop, stop <= n]
    h.ensure_from(f'counted-once-lemma/base:{tag}', P(z3.IntVal(0)), rng + [pse(0) == 0])
    emm, fbm = to_real(em.at(m)), to_real(fb.at(m))
    inw = z3.And(m >= start, m < stop)
    h.ensure(f'counted-once-lemma/element:{tag}', z3.Implies(z3.And(m >= 0, m < n), emm == z3.If(inw, ei * fbm, 0)))
    facts = rng + [m >= 0, m < n, P(m), pse(m + 1) == pse(m) + emm, psf(m + 1) == psf(m) + fbm, emm == z3.If(inw, ei * fbm, 0)]
    h.ensure_from(f'counted-once-lemma/step:{tag}', P(m + 1), facts)
    h.trust('induction schema: base and step obligations give the prefix-sum lemma for every m')
    h.ctx.assume(z3.Implies(z3.And(*rng), P(n)))
    h.ensure('every-kilogram-of-trajectory-fuel-counted-once', pse(n) == ei * (psf(stop) - psf(start)), note=tag)


_variants('get_trajectory_emissions', traj_unit, TRAJ_FUNCS, replay='contracts.C11:replay', max_paths=60000)
# the element type of the fuel arrays must not matter: whole-kilogram (integer) fuel masses, method options fixed to keep the unit small
unit('C01', 'get_trajectory_emissions.whole-kilogram-fuel-masses', TRAJ_FUNCS, replay='contracts.C11:replay', max_paths=20000)(
    lambda h: traj_unit(h, dict(co2_enabled=True, h2o_enabled=True, sox_enabled=True, nox_method='NONE', hc_method='NONE', co_method='NONE',
                                pmvol_method='NONE', pmnvol_method='NONE'), whole_kg=True))


@unit('C01', 'compute_emissions.wiring', [f'{E}.emission:compute_emissions', f'{E}.emission:get_lifecycle_emissions'],
      replay='contracts.C11:replay')
def compute_unit(h):
    """Top level: per-segment fuel burn from fuel-mass differences; total fuel burn = sum of exactly the components that
    are switched on; the four sources' results are what is summed and reported; life-cycle CO2 added to the CO2 total.
    The four source functions are used by contract (their own units)."""
    I = h.I
    ec = emis.setup_config(h)
    S, sp = emis.species_enum(h)
    sums = Sums(h)
    n = h.int('n_points')
    h.assume(n >= 1)
    fuel = emis.make_fuel(h)
    traj, fm, nc, nd = emis.make_traj(h, n)
    SV = I.lookup_fq('AEIC.types.species:SpeciesValues')
    ES = I.lookup_fq(f'{E}.types:EmissionsSubset')
    seen = {}

    def subset(tag, with_co2=True):
        fbv = h.real(tag + '_fuel_burn')
        h.ctx.assume(fbv >= 0)
        em = I.call(SV, [{sp['CO2']: (SArr.symbolic(h.ctx, tag + '_co2', n) if tag == 'traj' else
                                     (emis.tmv(h, tag + '_co2')[0] if tag == 'lto' else h.real(tag + '_co2')))}], {})
        ind = I.call(SV, [{}], {})
        o = I.call(ES, [ind, em, fbv], {})
        seen[tag] = (o, em, ind, fbv)
        return o

    def traj_sum(I_, fi, a, k):
        seen['fb_arg'] = a[2]
        return subset('traj')
    h.summary(f'{E}.trajectory:get_trajectory_emissions', traj_sum)
    h.summary(f'{E}.lto:get_LTO_emissions', lambda I_, fi, a, k: subset('lto'))

    def apu_sum(I_, fi, a, k):
        seen['apu_lto_arg'] = a[0]
        return subset('apu')
    h.summary(f'{E}.apu:get_APU_emissions', apu_sum)
    h.summary(f'{E}.gse:get_GSE_emissions', lambda I_, fi, a, k: subset('gse'))

    def total_sum(I_, fi, a, k):
        seen['sum_args'] = k
        return I_.call(SV, [{sp['CO2']: h.real('total_co2_before_lifecycle')}], {})
    h.summary(f'{E}.emission:sum_total_emissions', total_sum)
    # enabled_species by its contract (proved in the enabled_species unit): s in result <=> its documented switch
    from pyvc.values import Model

    class EnabledSet(Model):
        def py_contains(self, I_, item):
            return enabled(h, ec, item.name)
    h.summary('AEIC.config.emissions:EmissionsConfig.enabled_species', lambda I_, fi, a, k: EnabledSet())
    has_apu = h.choice(2) == 1
    pm = emis.PM(apu=('apu-data' if has_apu else None), aircraft_class='narrow', lto=None, edb=None)
    try:
        r = h.call(f'{E}.emission:compute_emissions', pm, fuel, traj)
    except PyExc as e:
        if internal_error(e):
            h.fail('no-internal-error', f'{e.inst!r} at {e.inst.where}')
        else:
            h.ensure('refusal-is-documented', h.exc_is(e, 'RuntimeError'), note=repr(e.inst))
        return
    fb = seen.get('fb_arg')
    k = h.ctx.fresh('k', Z)
    h.ctx.assume(z3.And(k >= 1, k < n))
    h.ensure('segment-fuel-is-the-fuel-mass-difference',
             z3.And(to_real(fb.at(0)) == 0, to_real(fb.at(k)) == to_real(fm.at(k - 1)) - to_real(fm.at(k))))
    h.ensure('reports-that-segment-fuel', h.getattr(r, 'fuel_burn_per_segment') is fb)
    apu_on = z3.And(zb(ec.attrs['apu_enabled']), has_apu)
    gse_on = zb(ec.attrs['gse_enabled'])
    want = seen['traj'][3] + seen['lto'][3]
    if 'apu' in seen:
        want = want + seen['apu'][3]
    if 'gse' in seen:
        want = want + seen['gse'][3]
    h.ensure('apu-and-gse-computed-exactly-when-switched-on',
             z3.And(apu_on == ('apu' in seen), gse_on == ('gse' in seen)))
    h.ensure('total-fuel-burn-is-the-sum-of-the-components', to_real(h.getattr(r, 'total_fuel_burn')) == want)
    sa = seen.get('sum_args', {})
    h.ensure('totals-are-summed-from-the-four-sources',
             sa.get('trajectory') is seen['traj'][1] and sa.get('lto') is seen['lto'][1] and
             (sa.get('apu') is seen['apu'][1] if 'apu' in seen else sv_data(sa.get('apu')) == {}) and
             (sa.get('gse') is seen['gse'][1] if 'gse' in seen else sv_data(sa.get('gse')) == {}))
    h.ensure('reports-the-sources-own-results',
             h.getattr(r, 'trajectory_emissions') is seen['traj'][1] and h.getattr(r, 'lto_emissions') is seen['lto'][1] and
             h.getattr(r, 'trajectory_indices') is seen['traj'][2] and h.getattr(r, 'lto_indices') is seen['lto'][2])
    if 'apu' in seen:
        h.ensure('apu-uses-the-lto-indices', seen['apu_lto_arg'] is seen['lto'][2])
    tot = to_real(sv_data(h.getattr(r, 'total_emissions'))[sp['CO2']])
    lc_on = z3.And(zb(ec.attrs['co2_enabled']), zb(ec.attrs['lifecycle_enabled']))
    lc = to_real(fuel.attrs['lifecycle_CO2']) * ((to_real(fm.at(0)) - to_real(fm.at(n - 1))) * to_real(fuel.attrs['energy_MJ_per_kg']))
    h.ensure('co2-total-includes-the-life-cycle-adjustment', tot == h.real('total_co2_before_lifecycle') + z3.If(lc_on, lc, 0))
    h.ensure('life-cycle-adjustment-reported', to_real(h.getattr(r, 'lifecycle_co2')) == z3.If(lc_on, lc, 0))
