"""C04 -- gridding conserves every integrated quantity.

Deductive part (real code): the antimeridian split -- lengths of the two parts, the value split
v * L1 / (L1 + L2) and v * L2 / (L1 + L2) adding up to v, all other segments' values passed on unchanged and in
order -- and the concatenation of the two gridded parts.  Bounded part: the geometric core against an exact
piece-wise oracle (see gridcheck.py)."""
from __future__ import annotations

import z3

from contracts import gridunits as gu
from contracts.gridunits import G, GCD
from pyvc.models.arrays import SArr
from pyvc.values import PyExc, to_real, to_z3
from pyvc.verify import unit

LEVEL = 'other'
EXPLANATION = ('The value split of the antimeridian-crossing segment and the hand-over of all other values to the two parts are proved on the '
               'real code for paths of any length; the geometric core (grid-line intersections, piece lengths, fractions) is checked against '
               'an exact oracle on bounded families of grids and paths.')


def crossing_latitude(lats, lons, k, s, PI):
    """Latitude at which the straight map line of the crossing segment meets the antimeridian."""
    la0, la1 = to_real(lats.at(k)), to_real(lats.at(k + 1))
    lo0 = to_real(lons.at(k))
    lo1u = to_real(lons.at(k + 1)) + (2 * PI if s == -1 else -2 * PI)
    edge = PI if s == -1 else -PI
    return z3.If(lo1u == lo0, la0, la0 + (la1 - la0) * (edge - lo0) / (lo1u - lo0)), edge


@unit('C04', 'antimeridian.segment-lengths', [G + ':Gridder._calculate_segment_lengths'], replay='contracts.C04:replay_crossing')
def lengths_unit(h):
    """The crossing segment is cut where its straight map line meets +-pi; the two parts are measured by great-circle
    distance and the total is their sum."""
    gu.install(h)
    n, lats, lons, alts, times, state, integ = gu.make_path(h, False, False, 0, 0)
    dc, k, s = gu.one_crossing(h, n)
    g, *_ = gu.make_gridder(h, False, False)
    PI = gu.pi(h)
    l1, l2, tot = h.method(g, '_calculate_segment_lengths', lats, lons, k, s)
    latc, edge = crossing_latitude(lats, lons, k, s, PI)
    d1 = GCD(to_real(lats.at(k)), to_real(lons.at(k)), latc, edge)
    d2 = GCD(latc, -edge, to_real(lats.at(k + 1)), to_real(lons.at(k + 1)))
    h.ctx.assume(z3.And(d1 >= 0, d2 >= 0))
    degenerate = z3.And(d1 == 0, d2 == 0)        # both end points on the antimeridian at the same latitude: a repeated point
    h.ensure('first-part-runs-from-the-start-point-to-the-crossing-point', z3.Implies(z3.Not(degenerate), to_real(l1) == d1))
    h.ensure('second-part-runs-from-the-crossing-point-to-the-end-point', z3.Implies(z3.Not(degenerate), to_real(l2) == d2))
    h.ensure('total-is-the-sum-of-the-parts-and-a-valid-divisor', z3.And(to_real(l1) >= 0, to_real(l2) >= 0, to_real(l1) + to_real(l2) == to_real(tot), to_real(tot) > 0),
             note='for a repeated point on the antimeridian the shares must still be finite and add up to one')


@unit('C04', 'antimeridian.value-split', [G + ':Gridder._dateline_split_first_segment', G + ':Gridder._dateline_split_second_segment'],
      replay='contracts.C04:replay_crossing')
def split_unit(h):
    """For any path length and crossing position: the first part carries the values of the segments before the
    crossing and L1/total of the crossing segment's value, the second part L2/total of it and the values of the
    segments after; with total = L1 + L2 > 0 the two shares add up to the segment's value."""
    gu.install(h)
    n, lats, lons, alts, times, state, integ = gu.make_path(h, False, False, 0, 1)
    if h.choice(2) == 1:
        # integrated quantities counted in whole units (an integer array): the shares of the crossing segment are fractions
        integ = (SArr.symbolic(h.ctx, 'integrated0_whole_units', n - 1, sort=z3.IntSort()),)
        h.ctx.named['integrated_values_are_integers'] = z3.BoolVal(True)
    dc, k, s = gu.one_crossing(h, n)
    g, *_ = gu.make_gridder(h, False, False)
    attrs0 = dict(g.attrs)
    l1, l2 = h.real('first_part_length'), h.real('second_part_length')
    h.assume(z3.And(l1 >= 0, l2 >= 0, l1 + l2 > 0), 'part lengths as returned by _calculate_segment_lengths (total > 0)')
    tot = l1 + l2
    a = h.method(g, '_dateline_split_first_segment', lats, lons, None, None, (), integ, k, s, l1, tot)
    b = h.method(g, '_dateline_split_second_segment', lats, lons, None, None, (), integ, k, s, l2, tot)
    iv1, iv2 = a[5][0], b[5][0]
    v = integ[0]
    h.ensure('first-part-has-one-value-per-segment', z3.And(to_z3(h.I.len_(iv1)) == k + 1, to_z3(h.I.len_(a[0])) == k + 2, to_z3(h.I.len_(a[1])) == k + 2))
    h.ensure('second-part-has-one-value-per-segment', z3.And(to_z3(h.I.len_(iv2)) == n - 1 - k, to_z3(h.I.len_(b[0])) == n - k, to_z3(h.I.len_(b[1])) == n - k))
    j = h.int('any_segment')
    h.assume(z3.And(j >= 0, j < n - 1))
    h.ensure('values-before-the-crossing-go-to-the-first-part-unchanged', z3.Implies(j < k, to_real(iv1.at(j)) == to_real(v.at(j))))
    h.ensure('values-after-the-crossing-go-to-the-second-part-unchanged', z3.Implies(j > k, to_real(iv2.at(j - k)) == to_real(v.at(j))))
    h.ensure('the-crossing-segments-value-is-split-without-loss', to_real(iv1.at(k)) + to_real(iv2.at(0)) == to_real(v.at(k)))
    h.ensure('each-share-is-proportional-to-its-parts-length', z3.And(to_real(iv1.at(k)) * tot == to_real(v.at(k)) * l1, to_real(iv2.at(0)) * tot == to_real(v.at(k)) * l2))
    h.ensure('the-gridder-keeps-nothing-from-the-call', set(g.attrs) == set(attrs0) and all(g.attrs[a] is attrs0[a] for a in attrs0),
             note='attributes added or replaced on the Gridder: ' + ', '.join(sorted(a for a in g.attrs if a not in attrs0 or g.attrs[a] is not attrs0[a])))


@unit('C04', 'antimeridian.whole', [G + ':Gridder._grid_trajectory_with_dateline_crossing', G + ':Gridder._cell_idxs_and_variables_for_dateline_split_trajectory'],
      replay='contracts.C04:replay_crossing')
def whole_unit(h):
    """grid_trajectory on a path with one crossing: the core grids the two parts, whose integrated inputs add up to the
    path's; the result is the first part's pieces followed by the second part's (nothing dropped or duplicated)."""
    gu.install(h)
    n, lats, lons, alts, times, state, integ = gu.make_path(h, False, False, 0, 1)
    dc, k, s = gu.one_crossing(h, n)
    g, glat, glon, *_ = gu.make_gridder(h, False, False)
    core = gu.Core(h)
    try:
        out = h.method(g, '_grid_trajectory_with_dateline_crossing', dc, lats, lons, None, None, (), integ)
    except PyExc as e:
        h.fail('a-path-with-one-crossing-is-gridded', f'{e.inst!r} at {e.inst.where}')
        return
    if len(core.calls) != 2:
        h.fail('core-grids-the-two-parts', f'{len(core.calls)} core calls')
        return
    c1, c2 = core.calls
    iv = out[5][0]
    m1, m2 = c1['m'], c2['m']
    h.ensure('result-is-the-first-parts-pieces-followed-by-the-second-parts', to_z3(h.I.len_(iv)) == m1 + m2)
    q = h.int('any_piece')
    h.assume(z3.And(q >= 0, q < m1 + m2))
    h.ensure('every-piece-keeps-its-value', to_real(iv.at(q)) == z3.If(q < m1, to_real(c1['iv'][0].at(q)), to_real(c2['iv'][0].at(q - m1))))
    # inputs of the two core calls: conservation of the crossing segment's value (L1 + L2 = total > 0 by segment-lengths)
    i1, i2 = c1['integrated_variables'][0], c2['integrated_variables'][0]
    h.ensure('inputs-of-the-two-parts-add-up-to-the-paths-values',
             z3.And(to_real(i1.at(k)) + to_real(i2.at(0)) == to_real(integ[0].at(k))))


def replay_crossing(payload):
    r = native_check(dict(tier='quick', only='crossing'))
    return dict(reproduced=bool(r['c04']), observed=r['c04'][:4], cases=r['cases'])


def native_check(payload):
    from contracts.gridcheck import run_families
    r = run_families(payload)
    r['reproduced'] = bool(r['c04'])
    r['observed'] = r['c04'][:4]
    return r


def bounded_checks(tier, seed):
    from pyvc.cli import run_native
    r = run_native('contracts.C04', 'native_check', dict(tier=tier, seed=seed), timeout=3000)
    viol = [dict(obligation='bounded/segment-value-is-conserved', input=m, observed=m, replay_fn='contracts.C04:native_check') for m in (r.get('c04') or [])[:4]]
    return [dict(name='real Gridder.grid_trajectory against the exact piece-wise oracle: conservation per segment and per path', cases=r.get('cases', 0),
                 distinct_nontrivial=r.get('cases', 0), bound=r.get('bound', ''), rule=r.get('rule', ''), violations=viol, error=r.get('error'))]
