#!/usr/bin/env python3
"""Apply every seeded change under /verif/seeded to /repo (one at a time, undone straight afterwards), run the check of
the property it breaks (and, with --cross, the checks of the properties sharing its code) and record what was reported.
Writes seeded/RESULTS.json.  Evidence of these runs goes to scratch (never to evidence/)."""
import json, os, re, subprocess, sys, time
from pathlib import Path
V = Path('/verif')
CROSS = {'C02': ['C15', 'C17'], 'C15': ['C02'], 'C17': ['C02'], 'C01': ['C11'], 'C11': ['C01'], 'C07': ['C08', 'C09', 'C10'], 'C08': ['C07', 'C09'],
         'C09': ['C08', 'C07'], 'C10': ['C07'], 'C04': ['C05'], 'C05': ['C04'], 'C06': ['C02']}


def sh(*a, **k):
    return subprocess.run(a, capture_output=True, text=True, **k)


def main():
    cross = '--cross' in sys.argv
    only = [a for a in sys.argv[1:] if not a.startswith('--')]
    out = {}
    res_path = Path(os.environ.get('MUTANT_RESULTS', str(V / 'seeded' / 'RESULTS.json')))
    if res_path.exists():
        out = json.loads(res_path.read_text())
    for d in sorted((V / 'seeded').glob('C*-[a-z]')):
        name = d.name
        if only and name not in only and name.split('-')[0] not in only:
            continue
        prop = name.split('-')[0]
        patch = d / 'patch.ported.diff'
        if not patch.exists():
            patch = d / 'patch.diff'
        assert sh('git', '-C', '/repo', 'status', '--porcelain').stdout.strip() == '', '/repo is not clean'
        r = sh('git', '-C', '/repo', 'apply', str(patch))
        if r.returncode != 0:
            r = sh('git', '-C', '/repo', 'apply', '--3way', str(patch))
            if r.returncode != 0 or 'with conflicts' in (r.stderr + r.stdout):
                sh('git', '-C', '/repo', 'reset', '-q', '--hard')
                r.returncode = 1
        if r.returncode != 0:
            out[name] = dict(applies=False, patch=patch.name, error=r.stderr[-300:])
            print(name, 'DOES NOT APPLY')
            continue
        rec = dict(applies=True, patch=patch.name, checks={})
        try:
            for p in [prop] + (CROSS.get(prop, []) if cross else []):
                t0 = time.time()
                env = dict(os.environ, VERIF_EVIDENCE_DIR=str(V / 'scratch' / 'evidence-mutant'))
                c = sh(str(V / 'check'), p, env=env, cwd=str(V))
                obs = []
                for line in c.stdout.splitlines():
                    m = re.match(r'VIOLATION property=(\S+) replay=(\S+)(.*)', line)
                    if m:
                        try:
                            ob = json.loads(Path(m.group(2)).read_text()).get('obligation')
                        except Exception:
                            ob = Path(m.group(2)).name
                        obs.append(ob + (' [no-failing-input-found]' if 'no-failing-input-found' in m.group(3) else ''))
                rec['checks'][p] = dict(exit=c.returncode, violated=sorted(set(obs))[:12], wall=round(time.time() - t0, 1),
                                        undecided=[l[:200] for l in c.stdout.splitlines() if l.startswith('UNDECIDED')][:4])
                print(name, p, 'exit', c.returncode, len(obs), 'violations', f'{time.time() - t0:.0f}s', flush=True)
        finally:
            sh('git', '-C', '/repo', 'reset', '-q')
            sh('git', '-C', '/repo', 'checkout', '--', '.')
        out[name] = rec
        res_path.write_text(json.dumps(out, indent=1))
    assert sh('git', '-C', '/repo', 'status', '--porcelain').stdout.strip() == ''


if __name__ == '__main__':
    main()
