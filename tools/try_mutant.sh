#!/bin/sh
# tools/try_mutant.sh <patch.diff> <property> [extra check args] : apply a seeded change to /repo, run the check, undo it.
patch="$1"; prop="$2"; shift 2
git -C /repo apply "$patch" 2>/dev/null || git -C /repo apply --3way "$patch" 2>/dev/null || { git -C /repo reset -q --hard; echo "patch does not apply"; exit 9; }
VERIF_EVIDENCE_DIR=/verif/scratch/evidence-mutant /verif/check "$prop" "$@"; rc=$?
git -C /repo reset -q; git -C /repo checkout -- .
echo "exit=$rc"
exit $rc
