#!/bin/sh
# tools/dev_check.sh <args>: run a check against a clean export of /repo HEAD (/tmp/clean/src) without touching the
# evidence or replay directories of the registered runs (used while /repo's working tree is busy with seeded changes).
[ -d /tmp/clean/src ] || { mkdir -p /tmp/clean && git -C /repo archive HEAD src | tar -x -C /tmp/clean; }
AEIC_SRC=/tmp/clean/src VERIF_EVIDENCE_DIR=/verif/scratch/evidence-dev VERIF_REPLAY_DIR=/verif/scratch/replays-dev exec /verif/check "$@"
