#!/usr/bin/env python3
"""Development aid: the seeded-change table computed in parallel on scratch git worktrees of /repo (one per worker, under
/tmp, removed at the end) with AEIC_SRC pointing at the worktree -- /repo's own working tree is not touched.  The table
that is reported in DESIGN.md is the one made by tools/mutant_table.py (changes applied to /repo itself, one at a time).
usage: mutant_table_par.py [-j N] [ids...]      results -> $MUTANT_RESULTS (default scratch/RESULTS.par.json)"""
import json, os, re, subprocess, sys, time
from concurrent.futures import ThreadPoolExecutor
from pathlib import Path
from queue import Queue
V = Path('/verif')


def sh(*a, **k):
    return subprocess.run(a, capture_output=True, text=True, **k)


def main():
    args = sys.argv[1:]
    jobs = 5
    if '-j' in args:
        i = args.index('-j')
        jobs = int(args[i + 1])
        del args[i:i + 2]
    only = args
    res_path = Path(os.environ.get('MUTANT_RESULTS', str(V / 'scratch' / 'RESULTS.par.json')))
    out = json.loads(res_path.read_text()) if res_path.exists() else {}
    names = [d.name for d in sorted((V / 'seeded').glob('C*-[a-z]')) if not only or d.name in only or d.name.split('-')[0] in only]
    trees = Queue()
    made = []
    for w in range(jobs):
        t = f'/tmp/mw-{os.getpid()}-{w}'
        r = sh('git', '-C', '/repo', 'worktree', 'add', '--detach', t, 'HEAD')
        assert r.returncode == 0, r.stderr
        made.append(t)
        trees.put(t)

    def one(name):
        prop = name.split('-')[0]
        d = V / 'seeded' / name
        patch = d / 'patch.ported.diff'
        if not patch.exists():
            patch = d / 'patch.diff'
        t = trees.get()
        try:
            r = sh('git', '-C', t, 'apply', str(patch))
            if r.returncode != 0:
                r = sh('git', '-C', t, 'apply', '--3way', str(patch))
                if r.returncode != 0 or 'with conflicts' in (r.stderr + r.stdout):
                    return name, dict(applies=False, patch=patch.name, error=r.stderr[-300:])
            t0 = time.time()
            env = dict(os.environ, AEIC_SRC=t + '/src', VERIF_EVIDENCE_DIR=str(V / 'scratch' / f'evidence-par-{name}'),
                       VERIF_REPLAY_DIR=str(V / 'scratch' / f'replays-par-{name}'))
            c = sh(str(V / 'check'), prop, env=env, cwd=str(V))
            obs = []
            for line in c.stdout.splitlines():
                m = re.match(r'VIOLATION property=(\S+) replay=(\S+)(.*)', line)
                if m:
                    try:
                        ob = json.loads(Path(m.group(2)).read_text()).get('obligation')
                    except Exception:
                        ob = Path(m.group(2)).name
                    obs.append(ob + (' [no-failing-input-found]' if 'no-failing-input-found' in m.group(3) else ''))
            rec = dict(applies=True, patch=patch.name, checks={prop: dict(
                exit=c.returncode, violated=sorted(set(obs))[:12], wall=round(time.time() - t0, 1),
                undecided=[l[:200] for l in c.stdout.splitlines() if l.startswith('UNDECIDED')][:4])})
            print(name, prop, 'exit', c.returncode, len(obs), 'violations', f'{time.time() - t0:.0f}s', flush=True)
            return name, rec
        finally:
            sh('git', '-C', t, 'reset', '-q', '--hard')
            sh('git', '-C', t, 'clean', '-fdq')
            trees.put(t)
    try:
        with ThreadPoolExecutor(jobs) as ex:
            for name, rec in ex.map(one, names):
                out[name] = rec
                res_path.write_text(json.dumps(out, indent=1))
    finally:
        for t in made:
            sh('git', '-C', '/repo', 'worktree', 'remove', '--force', t)
    bad = [n for n in names if not out[n].get('applies') or out[n]['checks'][n.split('-')[0]]['exit'] != 1]
    print('not reported as a violation:', bad)


if __name__ == '__main__':
    main()
