#!/usr/bin/env python
"""CPython differential of the engine's Python semantics (DESIGN 10.2 'engine cross-check').

A catalogue of small pure functions over integers (the corners where a home-made symbolic executor is most
likely to be wrong: floor division / modulo of negatives, chained comparisons, short-circuit values,
loop else / break / continue, try / except / finally ordering, closures, slices and negative indices,
dict / list aliasing, generator consumption, integer truthiness ...) is
  * executed natively by CPython on every argument tuple of a small box, and
  * executed by the engine on *symbolic* integers constrained to the same box, with the obligation
    "the value returned (or the exception raised) is the one CPython gives for this argument tuple",
    stated as a finite table and discharged by the solver.
Agreement = every obligation proved on every path; a refutation is an engine error (never a property
violation): exit 3.  A case the engine refuses as outside its subset is listed as skipped.  Not a
registered check; run by tools/run_all.sh and by hand after engine changes.  Results: tools/CPYDIFF.json.
"""
from __future__ import annotations

import itertools
import json
import os
import sys
import tempfile
import textwrap
import time
from pathlib import Path

CASES = r'''
def fdiv(a, b):
    return a // b

def fmod(a, b):
    return a % b

def dm(a, b):
    q, r = divmod(a, b)
    return q * 100 + r

def chain(a, b):
    return 1 if a < b <= 2 else 0

def chain3(a, b):
    if -1 <= a < b != 3:
        return 7
    return 8

def sc_or(a, b):
    return a or b

def sc_and(a, b):
    return a and b

def sc_mix(a, b):
    return (a and b) or (b - a)

def truth(a, b):
    n = 0
    if a:
        n += 1
    if not b:
        n += 10
    if a and not b:
        n += 100
    return n

def cond(a, b):
    return a if a > b else b if b > 0 else -1

def loop_else(a, b):
    for i in range(a, b):
        if i == 2:
            r = 50
            break
    else:
        r = -50
    return r

def loop_continue(a, b):
    s = 0
    for i in range(b):
        if i % 2 == a % 2:
            continue
        s += i
    return s

def while_break(a, b):
    n = 0
    i = a
    while i < b:
        i += 1
        if i == 1:
            continue
        n += i
        if n > 5:
            break
    else:
        n += 1000
    return n

def range_step(a, b):
    s = 0
    for i in range(b, a, -1):
        s = s * 2 + i
    return s

def range_step2(a, b):
    return len(range(a, b, 2)) * 10 + len(range(b, a, -2))

def try_order(a, b):
    log = 0
    try:
        log = log * 10 + 1
        if a < 0:
            raise ValueError('neg')
        log = log * 10 + 2
        x = b // a
        log = log * 10 + 3
    except ValueError:
        log = log * 10 + 4
    except ZeroDivisionError:
        log = log * 10 + 5
    else:
        log = log * 10 + 6
    finally:
        log = log * 10 + 7
    return log

def finally_return(a, b):
    def inner():
        try:
            if a > b:
                return 1
            raise KeyError(a)
        finally:
            if a == b:
                return 2
    try:
        return inner()
    except KeyError:
        return 3

def raises(a, b):
    if a == b:
        raise ValueError('same')
    if a + b == 0:
        raise KeyError(a)
    return [10, 20, 30][a]

def closure(a, b):
    def add(x, k=b):
        return x + k + a
    a = a + 1
    return add(1) * 10 + add(1, 0)

def swap(a, b):
    a, b = b, a + b
    a, b = b, a
    return a * 7 + b

def star(a, b):
    first, *rest = [a, b, a + b, a - b]
    return first * 100 + len(rest) * 10 + rest[-1]

def neg_index(a, b):
    xs = [1, 2, 3, 4, 5]
    return xs[a] * 10 + xs[-1 - (b % 3)]

def slices(a, b):
    xs = [1, 2, 3, 4, 5, 6]
    ys = xs[a:b]
    return len(ys) * 100 + sum(ys)

def slices_neg(a, b):
    xs = [1, 2, 3, 4, 5, 6]
    ys = xs[a:]
    zs = xs[:b]
    return len(ys) * 1000 + len(zs) * 100 + sum(ys) - sum(zs)

def alias(a, b):
    xs = [a, b]
    ys = xs
    zs = list(xs)
    ys.append(a + b)
    zs.append(7)
    xs[0] = 9
    return len(xs) * 1000 + len(zs) * 100 + ys[0] * 10 + zs[0]

def dicts(a, b):
    d = {a: 1}
    d[b] = d.get(b, 0) + 5
    d.setdefault(a, 50)
    d.setdefault(3, 60)
    return len(d) * 1000 + d[a] * 10 + d[3]

def dict_order(a, b):
    d = {}
    d[a] = 'x'
    d[b] = 'y'
    d[a] = 'z'
    ks = list(d)
    return ks[0] * 10 + ks[-1] + (100 if d[a] == 'z' else 0)

def dict_missing(a, b):
    d = {0: 1, 1: 2}
    try:
        return d[a] + d[b]
    except KeyError:
        return -1

def gen_once(a, b):
    g = (i for i in range(b) if i != a)
    first = any(x > 1 for x in g)
    return (1 if first else 0) * 100 + sum(g)

def any_all(a, b):
    xs = [a, b, 1]
    return (1 if any(xs) else 0) + (10 if all(xs) else 0) + (100 if all(x > 0 for x in xs) else 0)

def minmax(a, b):
    return min(a, b, 1) * 100 + max([a, b]) * 10 + abs(a - b)

def power(a, b):
    return a ** 2 - b ** 3 + (-a) ** 2 - -b ** 2

def sorted_(a, b):
    xs = sorted([a, b, 0], reverse=a > b)
    return xs[0] * 100 + xs[1] * 10 + xs[2]

def enum_zip(a, b):
    s = 0
    for i, (x, y) in enumerate(zip([a, b, 3], [b, a])):
        s += i * x - y
    return s

def aug(a, b):
    x = a
    x += b
    x *= 2
    x -= a
    x //= 2
    x %= 5
    return x

def is_none(a, b):
    x = None if a > b else a
    if x is None:
        return -1
    return 0 if x is not None and x == b else 1

def int_bool(a, b):
    return (a < b) + (a == b) * 10 + int(a > b) * 100 + (True if a else False)

def nested_comp(a, b):
    return sum(i * j for i in range(a) for j in range(b) if i != j)

def list_comp_scope(a, b):
    i = 99
    xs = [i for i in range(b)]
    return i + len(xs)

def tuple_cmp(a, b):
    return 1 if (a, b) < (b, a) else 2 if (a, b) == (b, a) else 3

def in_ops(a, b):
    xs = [0, 1, 2]
    return (1 if a in xs else 0) + (10 if b not in xs else 0) + (100 if a in {b: 1} else 0)

def default_mutable(a, b):
    def f(x, acc=[]):
        acc.append(x)
        return len(acc)
    f(a)
    return f(b) * 10 + f(a, [])

def global_shadow(a, b):
    def g():
        return a * 2
    def hh(a):
        return g() + a
    return hh(b)

def str_ops(a, b):
    s = 'ab' * (a % 3)
    t = s + 'c' * (b % 2)
    return len(t) * 10 + (1 if t.endswith('c') else 0) + (100 if t.startswith('ab') else 0)

def round_half(a, b):
    return round(a / 2) * 10 + int(b / 2) + int(-b / 2)

def int_trunc(a, b):
    return int(a / 3) * 10 + (b / 2 > 0)

from dataclasses import dataclass, field


class Base:
    k = 5

    def __init__(self, x):
        self.x = x

    def val(self):
        return self.x + self.k

    @property
    def twice(self):
        return 2 * self.val()

    @staticmethod
    def st(v):
        return v - 1

    @classmethod
    def make(cls, v):
        return cls(v + cls.k)


class Derived(Base):
    k = 7

    def __init__(self, x, y):
        super().__init__(x)
        self.y = y

    def val(self):
        return super().val() * 10 + self.y


@dataclass
class DC:
    a: int
    b: int = 3
    items: list = field(default_factory=list)
    total: int = field(init=False, default=0)

    def __post_init__(self):
        self.total = self.a + self.b


@dataclass(frozen=True)
class FZ:
    a: int
    b: int = 1


def cls_attr(a, b):
    o = Base(a)
    p = Base(b)
    o.k = 100
    return o.val() * 1000 + p.val() + Base.k

def inherit(a, b):
    d = Derived(a, b)
    return d.val() * 10 + d.twice + Derived.st(a)

def classmeth(a, b):
    o = Base.make(a)
    try:
        d = Derived.make(b)
    except TypeError:
        return o.x * 10 - 1
    return o.x * 10 + d.x

def isinst(a, b):
    o = Derived(a, b) if a > b else Base(a)
    return (1 if isinstance(o, Base) else 0) + (10 if isinstance(o, Derived) else 0) + (100 if type(o) is Base else 0)

def dc_basic(a, b):
    x = DC(a)
    y = DC(a, b)
    x.items.append(1)
    return x.total * 100 + y.total * 10 + len(y.items) + (1000 if x == DC(a) else 0)

def dc_eq(a, b):
    return (1 if DC(a, b) == DC(b, a) else 0) + (10 if FZ(a) == FZ(a, 1) else 0) + (100 if FZ(a, b) != FZ(b, a) else 0)

def dc_frozen(a, b):
    f = FZ(a, b)
    try:
        f.a = b
    except AttributeError:
        return f.a * 10 + 1
    return f.a * 10

def missing_attr(a, b):
    o = Base(a)
    try:
        return o.y
    except AttributeError:
        pass
    return getattr(o, 'y', b) + (1000 if hasattr(o, 'x') else 0)

def obj_alias(a, b):
    o = Base(a)
    p = o
    q = Base(a)
    p.x = b
    return o.x * 100 + q.x * 10 + (1 if o is p else 0) + (2 if o is q else 0)
'''


def main():
    os.environ.setdefault('VERIF_SCRATCH', str(Path(__file__).resolve().parents[1] / 'scratch'))
    sys.setrecursionlimit(50000)
    root = Path(__file__).resolve().parents[1]
    sys.path.insert(0, str(root))
    tmp = Path(tempfile.mkdtemp(prefix='cpydiff_', dir=os.environ['VERIF_SCRATCH']))
    (tmp / 'AEIC').mkdir()
    (tmp / 'AEIC' / '__init__.py').write_text('')
    (tmp / 'AEIC' / 'cases.py').write_text(textwrap.dedent(CASES))
    import z3
    from pyvc import verify
    from pyvc.source import Repo
    from pyvc.values import PyExc, to_z3

    native: dict = {}
    exec(compile(textwrap.dedent(CASES), 'cases.py', 'exec'), native)
    import types
    names = [n for n, f in native.items() if isinstance(f, types.FunctionType) and not n.startswith('_') and n not in ('dataclass', 'field')]
    only = sys.argv[1:]
    lo, hi = -3, 3
    box = list(itertools.product(range(lo, hi + 1), repeat=2))
    out, bad = [], 0
    t0 = time.time()
    for name in names:
        if only and name not in only:
            continue
        table = {}
        for a, b in box:
            try:
                v = native[name](a, b)
                table[(a, b)] = ('ret', int(v))
            except Exception as e:      # noqa
                table[(a, b)] = ('exc', type(e).__name__)

        if os.environ.get('CPYDIFF_SELFTEST'):
            # vacuity guard: one wrong table entry per case must come out as DISAGREE
            kxy = sorted(k for k, (t, v) in table.items() if t == 'ret')[0]
            table[kxy] = ('ret', table[kxy][1] + 1)

        def fn(h, name=name, table=table):
            a, b = h.int('a'), h.int('b')
            h.assume(z3.And(a >= lo, a <= hi, b >= lo, b <= hi))
            try:
                r = h.call('AEIC.cases:' + name, a, b)
            except PyExc as e:
                kinds = sorted({k for t, k in table.values() if t == 'exc'})
                got = next((k for k in kinds if h.exc_is(e, k)), None)
                h.ensure('same-exception-as-cpython',
                         z3.Or([z3.And(a == x, b == y) for (x, y), (t, k) in table.items() if t == 'exc' and k == got])
                         if got else z3.BoolVal(False), note=f'engine raises {e.inst!r}')
                return
            if isinstance(r, bool):
                r = int(r)
            rz = to_z3(r)
            if z3.is_bool(rz):
                rz = z3.If(rz, 1, 0)
            if rz.sort() == z3.RealSort():
                rz = z3.ToInt(rz) if False else rz
            h.ensure('same-value-as-cpython',
                     z3.Or([z3.And(a == x, b == y, rz == v) for (x, y), (t, v) in table.items() if t == 'ret']),
                     note=f'engine returns {r}')

        u = verify.Unit('DIFF', name, ['AEIC.cases:' + name], fn, max_paths=3000, max_seconds=120)
        try:
            res = verify.run_unit(u, Repo(tmp), timeout_ms=10000)
            st = res.status
            detail = {c: r.status for c, r in res.clauses.items()}
            extra = (res.unsupported[:1] or [res.crash] or [None])[0]
            cex = None
            for r in res.clauses.values():
                if r.refuted:
                    cex = str(r.refuted[0])[:400]
        except Exception as e:      # noqa
            st, detail, extra, cex = 'crash', {}, repr(e)[:300], None
        verdict = {'proved': 'agree', 'refuted': 'DISAGREE', 'undecided': 'skipped', 'vacuous': 'skipped', 'crash': 'skipped'}[st]
        if verdict == 'skipped':
            # second mode: the same table, one engine run per concrete argument tuple (loops over concrete lengths, concrete keys)
            def fnc(h, name=name, table=table):
                k = h.choice(len(box))
                x, y = box[k]
                t, v = table[(x, y)]
                try:
                    r = h.call('AEIC.cases:' + name, x, y)
                except PyExc as e:
                    h.ensure('same-exception-as-cpython', t == 'exc' and bool(h.exc_is(e, v)), note=f'({x},{y}): engine raises {e.inst!r}, CPython {t} {v}')
                    return
                if isinstance(r, bool):
                    r = int(r)
                rz = to_z3(r)
                if z3.is_bool(rz):
                    rz = z3.If(rz, 1, 0)
                h.ensure('same-value-as-cpython', rz == v if t == 'ret' else z3.BoolVal(False), note=f'({x},{y}): engine returns {r}, CPython {t} {v}')
            try:
                res2 = verify.run_unit(verify.Unit('DIFF', name + '.concrete', ['AEIC.cases:' + name], fnc, max_paths=3000, max_seconds=120),
                                       Repo(tmp), timeout_ms=10000)
                if res2.status in ('proved', 'refuted'):
                    st, res = res2.status + ' (concrete arguments)', res2
                    detail = {c: r.status for c, r in res2.clauses.items()}
                    verdict = 'agree' if res2.status == 'proved' else 'DISAGREE'
                    for r in res2.clauses.values():
                        if r.refuted:
                            cex = str(r.refuted[0])[:400]
                else:
                    extra = (res2.unsupported[:1] or [res2.crash] or [extra])[0] or extra
            except Exception as e:      # noqa
                extra = repr(e)[:300]
        if verdict == 'DISAGREE':
            bad += 1
        out.append(dict(case=name, verdict=verdict, engine_status=st, clauses=detail, paths=getattr(res, 'paths', None) if st != 'crash' else None,
                        reason=(str(extra)[:300] if extra and verdict == 'skipped' else None), counterexample=cex))
        print(f'{verdict:9s} {name:18s} {st:10s} {detail} {str(extra)[:120] if verdict == "skipped" and extra else ""}{cex or ""}', flush=True)
    import shutil
    shutil.rmtree(tmp, ignore_errors=True)
    summary = dict(box=[lo, hi], cases=len(out), agree=sum(o['verdict'] == 'agree' for o in out),
                   skipped=sum(o['verdict'] == 'skipped' for o in out), disagree=bad, seconds=round(time.time() - t0, 1), results=out)
    if not only and not os.environ.get('CPYDIFF_SELFTEST'):
        (root / 'tools' / 'CPYDIFF.json').write_text(json.dumps(summary, indent=1))
    print(json.dumps({k: v for k, v in summary.items() if k != 'results'}))
    return 3 if bad else 0


if __name__ == '__main__':
    import threading
    threading.stack_size(256 * 1024 * 1024)
    rc = []
    t = threading.Thread(target=lambda: rc.append(main()))
    t.start(); t.join()
    sys.exit(rc[0] if rc else 3)
