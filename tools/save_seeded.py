#!/usr/bin/env python3
"""Copy confirmed seeded changes from /tmp/mut/out into /verif/seeded/<prop>-<x>/ (patch, demo, meta)."""
import json, shutil, sys
from pathlib import Path
import os
base = Path(os.environ.get('MUT_BASE', '/tmp/mut'))
out = base / 'out'; dst = Path('/verif/seeded')
for d in sorted(out.glob('C*/[a-z]')):
    c = d / 'confirm.json'
    if not c.exists():
        continue
    conf = json.loads(c.read_text())
    ok = conf.get('applies') and conf.get('suite_rc') == 0 and conf.get('demo_rc_with_change') not in (0, None) and conf.get('demo_rc_without_change') == 0
    name = f'{d.parent.name}-{d.name}'
    if not ok:
        print('NOT CONFIRMED', name, conf); continue
    t = dst / name; t.mkdir(parents=True, exist_ok=True)
    for f in d.iterdir():
        if f.name in ('patch.diff', 'demo.py', 'test_demo.py', 'patch.ported.diff'):
            shutil.copy(f, t / f.name)
    meta = json.loads((d / 'meta.json').read_text()) if (d / 'meta.json').exists() else {}
    meta['breaks_property'] = d.parent.name
    meta['confirmed_by_me'] = dict(where=f'scratch worktree {base}/{d.parent.name} at ' + ('pinned commit d32b495' if str(base) == '/tmp/mut' else 'the repaired tree ' + os.popen('git -C %s/%s rev-parse --short HEAD' % (base, d.parent.name)).read().strip()),
                                   ran=[('MUT_BASE=%s ' % base if str(base) != '/tmp/mut' else '') + 'tools/confirm_mutant.sh %s %s' % (d.parent.name, d.name)], **conf)
    old = json.loads((t / 'meta.json').read_text()) if (t / 'meta.json').exists() else {}
    for k in ('detected_by', 'check_result'):
        if k in old: meta[k] = old[k]
    (t / 'meta.json').write_text(json.dumps(meta, indent=1))
    print('saved', name)
