#!/usr/bin/env python3
"""Regenerate MANIFEST.json from the table below (kept valid at all times)."""
import json
from pathlib import Path

V = Path(__file__).resolve().parent.parent
CLAIMED = {
    # id: (category, text, note, technique, design_ref)
    'C16': ('other',
            'Postcondition of Weather.get_ground_speed (taken from the property statement) discharged by z3 over the real '
            'AST for all headings/airspeeds/winds and every cached state of the Weather object (representation invariant + '
            'preservation = every call history); the statement\'s algebraic clauses are lemmas about the spec formula. On '
            'the current tree one obligation (vector-sum) is refuted by the known east/north exchange, which is recorded '
            'as a known finding with a proved characterising contract. Because that obligation is open on the current tree '
            'the level claimed is other, not proof: 15 of 16 obligations are discharged deductively (all inputs, all call '
            'histories), one is a recorded defect.',
            'floats as reals; sin/cos/sqrt as uninterpreted functions with axiom instances; xarray isel/interp, file '
            'naming per date and the ISA pressure function (C12) by assumed contracts',
            'contract-based deductive verification: AST->z3 VCs of the real source, sidecar contracts', 'DESIGN 2 C16'),
    'C20': ('proof',
            'All interleavings of the atomic actions of two constructor calls (actions extracted from the real AST of '
            'TrajectoryStore.__init__: every load/store of active_in_thread; a with-Lock block is indivisible) are decided by '
            'z3 with symbolic thread ids and initial state (interference freedom), plus a sequential invariant '
            '(first owner set => active_in_thread == first owner) preserved by every call with any outcome, which gives '
            'every history of constructor calls by induction, and: the with-block counts as indivisible only if its context expression is one '
            'class-level Lock() assigned nowhere else (stated as a clause: the Lock contract gives exclusion among holders of one object). '
            'A refuted interference obligation is a schedule and is '
            'replayed on the real constructor with a sys.settrace line scheduler.',
            'atomicity granularity (one attribute load/store = one action), threading.Lock mutual exclusion, get_ident '
            'distinct per live thread; statements of __init__ that do not mention the shared attribute are abstracted '
            'to "continue or raise"',
            'contract-based deductive verification: atomic actions from the AST, interference-freedom + invariant VCs in z3',
            'DESIGN 2 C20'),
    'C18': ('proof',
            'Contracts of Config.load/get/reset and ConfigProxy over the three-state reference machine, proved by executing the '
            'real bodies symbolically from an arbitrary prior state (so every history follows by induction); every failure '
            'point of a load (validation rejection, each file-system lookup succeeding or failing, missing/invalid config '
            'file) is a path with the exceptional postcondition "_config is None afterwards". deep_update is proved per '
            'nesting level with the recursive call used by contract; the overlay order defaults<file<kwargs is proved on a '
            'tree with one key per presence class, twice in a row for one file (a later load does not see an earlier load\'s keyword arguments; '
            'memoised parsers hand out one object per argument tuple); '
            'frozen=True is a class-body obligation plus an assignment obligation.',
            'pydantic validator sequencing / frozen semantics, tomllib, Path.exists by assumed contracts; key-uniformity of '
            'dict operations (one key per presence/type class represents all keys)',
            'contract-based deductive verification: AST->z3 VCs of the real source, sidecar contracts', 'DESIGN 2 C18'),
    'C15': ('proof',
            'GroundTrack is built by its real constructor from 2, 3 and 4 symbolic waypoints; location / step / _overstep / '
            'total_distance / Point.__post_init__ and Mission.gc_distance are executed symbolically and their postconditions '
            '(point = forward geodesic from the leg start at offset s - index[j]; end points exact; overstep continues the last '
            'geodesic; refusals exactly for the documented reasons; azimuth in [0,360); gc_distance = geodesic distance = track '
            'length, symmetric) are discharged by z3 for all coordinates and distances, each query preceded by an arbitrary '
            'earlier query on the same object; the mission is made directly or by Mission.from_query_result. '
            'The number of waypoints is bounded (2..4), everything else unbounded.',
            'pyproj.Geod by assumed contract (argument order lon,lat; d>=0; symmetry; fwd(p,az12,d)=q): geodesic truth itself is '
            'not proved; floats as reals; bisect_left by its counting definition',
            'contract-based deductive verification: AST->z3 VCs of the real source, sidecar contracts', 'DESIGN 2 C15'),
    'C17': ('proof',
            'Builder.fly, _iterate_mass, _fly_iteration, __getattr__/__setattr__ executed symbolically with every callee '
            '(context construction, starting-mass calculation, each flight phase) allowed to raise its rejection reason at '
            'every call: exceptional postcondition "the surfaced exception is the callee\'s", frame "constructor-time fields '
            'unchanged and context removed on every exit". History independence is reduced to frame + write-before-read: '
            'whatever a flight leaves on the builder or its classes is poisoned for a second flight, which must never read it. '
            'The mass-iteration clause is proved by a loop invariant (unbounded iteration count) whose variable roles are '
            'discovered from values, not names.',
            'callee contracts of LegacyContext.__init__, calc_starting_mass and the phase methods (their own properties are '
            'C02/C06/C15/C16); Trajectory as an opaque record; history unit explores two consecutive flights with the '
            'iteration loop unrolled to 3; termination not proved',
            'contract-based deductive verification: AST->z3 VCs of the real source, loop invariant, frame/poison analysis',
            'DESIGN 2 C17'),
    'C07': ('proof',
            'Representation invariant (next index = number of rows; every cache entry equals its row) and per-operation '
            'contracts of add / __getitem__ / __len__ / iteration / _open / _load_trajectory / _open_nc_file / _create_nc_file, '
            'proved by executing the real bodies over a ghost row sequence from an arbitrary well-formed state: symbolic '
            'row count at open time, symbolic number of rows added in the session, arbitrary cache content, nondeterministic '
            'evictions through the real TrajectoryCache.popitem; several passes over one store at once are independent (iterator over the '
            '__getitem__ / __len__ contracts). '
            'Every history of operations follows by induction.',
            'netCDF4 variable indexing (negative = from the current end, IndexError outside), unlimited dimension and '
            'persistence, cachetools.LRUCache eviction, and the value layer (_read_from_nc_var/_write_data, C03) by assumed '
            'contracts; trajectories are opaque records; negative store indices not covered',
            'contract-based deductive verification: AST->z3 VCs of the real source, representation invariant + '
            'per-operation contracts', 'DESIGN 2 C07'),
    'C09': ('proof',
            'The real merge() is executed over a ghost file system for 1..3 inputs of symbolic sizes (explicit list and numbered '
            'pattern, names not in sorted order), the merged directory is then opened by the real constructor and read with a '
            'symbolic index: length = sum of the parts, i-th trajectory = the corresponding input trajectory, out of range '
            'refused; inputs with different field sets or mixed indexability refused; the merged flight-id index maps every id to '
            'its row shifted by the earlier parts\' sizes. The (file, local row) location arithmetic of _load_trajectory is '
            'proved separately for an unbounded number of parts from the cumulative-size invariant. merge() gives back every store it opens '
            'before it moves the file (ghost handles; precondition of the HDF5 library for renaming). '
            '',
            'ghost file system / JSON / netCDF models, bisect_left, sorted (ordered permutation), TrajectoryStore.open inside merge '
            'by its contract (C07/C08), value layer by C03; the end-to-end units bound the number of parts to 3 and the per-part '
            'index tables to 2 entries (sizes, indices and ids symbolic)',
            'contract-based deductive verification: AST->z3 VCs of the real source over ghost state', 'DESIGN 2 C09'),
    'C08': ('proof',
            'get_flight is proved from an arbitrary indexable store state with a symbolic number of rows: invariant "index not '
            'stale => table = (id,row) pairs of all rows sorted by id" (quantified; the instances used are added explicitly), '
            'stale state handled through _reindex by contract; postcondition: the trajectory added with that id, or None iff '
            'the id was never added. _reindex is proved to build exactly that table (0..3 rows, symbolic ids), add to keep '
            'stores fully identified or not at all and to raise the stale flag, _open to decide indexability from the file, '
            'a store without an index group (in memory) stays marked stale whatever runs before it is saved; '
            'the in-memory case and the merged index (offsets by earlier parts) have their own units.',
            'bisect_left / sorted by assumed contracts; netCDF and cache models and the value layer as in C07; _reindex and the '
            'merged index units bound the table sizes (3 rows / 2 entries per part)',
            'contract-based deductive verification: AST->z3 VCs of the real source, representation invariant', 'DESIGN 2 C08'),
    'C10': ('proof',
            'Exceptional postconditions: for every way add can raise (other field sets, inconsistent identifier use, missing '
            'required value, file-backed and in-memory) length, rows, next index and cache are as before. merge is executed over '
            'a ghost file system in which every file-system call is a step: an OSError is injected at each step in turn and every '
            'validation rule is exercised; at each exit every input is readable from its original path or the merged directory, '
            'metadata.json is present only if the directory is complete, and running merge again succeeds; the same two '
            'invariants are checked on the on-disk state before every step of a fault-free merge (crash without handlers). The interruption is '
            'an OSError, RuntimeError (HDF5 failure), MemoryError, KeyboardInterrupt or SystemExit; a species outside the file of its own '
            'field set (two files with their own species lists) is refused before anything is counted; merge closes what it opened also when '
            'refused or interrupted. '
            '',
            'ghost file system / netCDF / JSON models (one fault per run, rollback steps themselves do not fail); '
            'TrajectoryStore.open inside merge by contract; value layer (_write_data may extend the row before it raises) by '
            'contract from C03; two inputs per merge',
            'contract-based deductive verification: exceptional postconditions over ghost state, fault at every step',
            'DESIGN 2 C10'),
    'C03': ('other',
            'read(write(v)) = v is discharged by z3 for each of the six dimension cases (the arms of the match statements in '
            '_write_to_nc_var / _read_from_nc_var, driven through the real _write_data) over a ghost NetCDF variable: values '
            'equal, exactly the species that were present (none lost, none invented), only the addressed row written, unset '
            'optional fields read back unset, missing required values refused; _create_dimensions gives the species dimension '
            'exactly the data\'s species; _load_trajectory sizes the trajectory from any per-point field and reads every variable with the species list of its own file (the precondition of _read_from_nc_var checked at its call sites, two files with any pair of representative lists). One obligation is '
            'create_associated takes the new file\'s species from the first mapped result (unset optional fields allowed); the ghost variable '
            'masks fill values unless auto-masking was switched off on it (library default). '
            'open and recorded as a known finding (the species dimension is fixed by the first trajectory), hence level other.',
            'netCDF4 variable model (fill value / empty vlen array for unwritten slots, bounds errors) and dtype fidelity by '
            'assumption; the file species list ranges over representative lists (prefix, non-prefix, gap, single late, empty) x '
            'all subsets for the value; thrust-mode maps in every rotation of insertion order; floats as reals',
            'contract-based deductive verification: AST->z3 VCs of the real source over a ghost NetCDF variable', 'DESIGN 2 C03'),
    'C12': ('other',
            'Deductive part: ISA temperature / pressure (both layers, refusal above 25 km), pressure<->altitude mutually inverse, '
            'speed of sound, density, AtmosphericState, the FFM2 sea-level fuel-flow correction, the thrust category (total, '
            'exclusive, monotone, thresholds at the calibration mid-points), fuel-sulfur stoichiometry (sulfur atoms conserved), NOx '
            'speciation (fractions sum to one), BFFM2 NOx (log-log least-squares fit with the eq. 44/45 humidity / theta / delta '
            'correction; NO+NO2+HONO = NOx; non-negative) and FOA3 volatile PM are executed symbolically on arrays of symbolic '
            'length and proved equal to spec functions written from the cited equations; so are the BFFM2 HC/CO bilinear fit (slanted / '
            'horizontal segments, SAGE clamping rules, ACRP low-thrust factor, ambient factor; all 63 rule paths) and SCOPE11 (all '
            'patterns of valid / invalid smoke numbers, both engine kinds, any bypass ratio; non-negative); the NOx and HC / CO kernels leave '
            'their argument arrays and certification tables unchanged (fuel flows of any sign). '
            'MEEM (PMnvol_MEEM) is under contract too: every operation defined on valid data, GMD / mass / number index non-negative '
            '(bound lemmas: intervals derived structurally, each leaf fact an unsat answer of z3) and mass / number index linear in the '
            'certification indices (the goal generalised over the thrust setting and every power, then proved). Bounded part: MEEM, '
            'EI_HCCO and SCOPE11 once more against independent '
            'reference implementations on sampled data sets.',
            'floats as reals; pow/exp/log10/sqrt uninterpreted with axiom instances (listed in the evidence); np.polyfit(deg 1) = '
            'closed-form least squares, np.interp, np.select, np.where models; the humidity term of BFFM2 is assumed defined '
            '(P > phi*Pv) on 200-320 K / >= 2 kPa; the publications are not available offline, constants are those of the '
            'standard forms (humidity reference 0.0063 as in the code; the literature also quotes 0.00634)',
            'contract-based deductive verification with spec functions (AST->z3; bound lemmas and generalise-and-prove for MEEM), plus a bounded sampled second opinion for MEEM / EI_HCCO / SCOPE11',
            'DESIGN 2 C12'),
    'C01': ('proof',
            'Per-function contracts of the inventory: sum_total_emissions (every species total = trajectory sum + LTO modes + APU + '
            'GSE for all 16 presence patterns of every species), get_trajectory_emissions (segment amount = index x segment fuel, '
            'zero outside the accounting window of either mode, window fuel = difference of prefix sums, every kilogram counted '
            'once for CO2/H2O by an inductive prefix-sum lemma proved as base + step, NO+NO2+HONO = NOx, SO2+SO4 = SOx, '
            'non-negative), get_LTO_emissions (time in mode x fuel flow, mode zeroing), get_APU_emissions, get_GSE_emissions and '
            'the wiring of compute_emissions (fuel-mass differences, total fuel burn = exactly the switched-on components, '
            'life-cycle CO2). Options are symbolic; array lengths symbolic; fuel arrays of float or whole-kilogram integer element type.',
            #'life-cycle CO2). Options are symbolic; array lengths symbolic.',
            'EI kernels by their C12 contracts (arrays of the trajectory length, non-negative, NOx speciation sums); floats as '
            'reals; np.sum as prefix-sum functions with the induction schema trusted; APU non-negativity under the stated carbon '
            'balance precondition',
            'contract-based deductive verification: AST->z3 VCs of the real source, callee contracts, inductive lemmas',
            'DESIGN 2 C01'),
    'C11': ('proof',
            'The twelve documented options are symbolic enum members / Booleans on the real EmissionsConfig object; the units of '
            'C01 are explored over all feasible paths, which covers all 41 472 combinations by path conditions. Deciding clauses: '
            'no KeyError / AttributeError / TypeError / failed assert on any path; every other exception is NotImplementedError / '
            'RuntimeError whose message contains the method value; species switched off are absent or zero in the trajectory and '
            'LTO parts; enabled_species equals the documented switches.',
            'as C01; the option space is split over the three constant-species switches into 8 units run in parallel (every other '
            'option symbolic inside each)',
            'contract-based deductive verification: symbolic configuration, exceptional postconditions', 'DESIGN 2 C11'),
    'C19': ('proof',
            'The engine and fuel-burn models are built by their real constructors from the library\'s own Bada3AircraftParameters '
            'object with symbolic parameters (parameter access is a typing obligation). For the three engine classes the '
            'methods are executed on arrays of symbolic length and proved equal to the cited BADA-3 equations (3.7-1..3, 3.7-4, '
            '3.7-8, 3.7-9/10, 3.9-1..6, 3.6-1/2/5, 3.2-1): thrust = total-energy thrust limited by max climb or cruise thrust and '
            'replaced by descent thrust when negative; cruise fuel-flow correction only in cruise; specific ground range = ground '
            'speed / fuel flow. update_mass_vector(_backward): anchor mass kept, decrease over each step = trapezoid of '
            '1/sgr, never increasing. The four drivers return profiles satisfying that relation; fuel-dependent initial mass <= MTOW.',
            'scipy cumulative_trapezoid by its recurrence, 1/inf = 0, ISA pressure by contract (C12), floats as reals; drivers '
            'explored for n_iter = 1..3 with calculate_specific_ground_range by contract; final mass > 0 assumed (convergence '
            'test divides by it)',
            'contract-based deductive verification with spec functions (AST->z3)', 'DESIGN 2 C19'),
    'C14': ('other',
            'Deductive part: Filter.to_sql and its helpers are executed for all 4096 presence combinations of the twelve spatial '
            'attributes and all 64 of the simple ones (values symbolic): the compatibility rule accepts exactly the documented '
            'combinations, no internal error (empty filter included), placeholders and parameters aligned; Query / CountQuery / '
            'FrequentFlightQuery.to_sql with symbolic optional parameters: validation rules, the documented date (end date inclusive '
            '= before next midnight UTC), sampling, every-n-th, limit/offset conditions and parameter values; value semantics '
            '(second to_sql equal, earlier result not mutated); every Database.__call__ gets its own cursor. Bounded part: what the '
            'SQL means is checked on the shipped test database against a Python evaluation of the predicate (date boundaries, '
            'ranges, spatial filters, every-n-th, limit/offset, counts, frequent routes, interleaved executions).',
            'SQLite evaluation of the generated SQL and the schema are trusted / bounded; date arithmetic in whole days; strings '
            'abstracted by their placeholder count',
            'contract-based deductive verification of SQL construction + bounded database stand-in', 'DESIGN 2 C14'),
    'C13': ('other',
            'Deductive part: CSVEntry.is_row_valid is executed for every combination of the deciding field values (576 paths): False '
            'exactly for the documented reasons; OAGDatabase.add against the contracts of its callees: skipped only for an unknown '
            'airport or an implausible distance, otherwise one flight record, its instances and the recorded count, with the '
            'defaulted (start / end of data year) effective range passed to both; WritableDatabase._add_schedule for effective ranges '
            'of ANY length by an inductive invariant over the date loop (counting functions of included / dropped dates; ghost '
            'source date per row), and again unrolled for 1..3 dates, with symbolic start date, weekday set, local times, arrival '
            'day offset -1..2, zones and offsets: exactly one instance per operating, well-ordered date, at instants '
            'wall - utc_offset(zone, wall), day number, flight id, returned count, misordered instances dropped and warned about; _distance_check decision rule and Geod argument '
            'order (known finding: lat/lon exchanged); _make_dow_mask. Bounded part: generated CSV rows (open-ended, single-day, '
            'DST dates, misordered) imported by the real from_csv_row + add into SQLite and compared with a datetime/zoneinfo oracle.',
            'pandas date_range / Timestamp arithmetic and zoneinfo offsets are assumed contracts (utc_offset uninterpreted); CSV text '
            'parsing and SQLite are bounded / trusted',
            'contract-based deductive verification (AST->z3) + bounded import stand-in', 'DESIGN 2 C13'),
    'C02': ('other',
            'Container layer on the real Container / Trajectory / FieldSet code over symbolic size, capacity and buffer contents: append '
            'extends the view by exactly the point (also across capacity expansion), make_point(idx) is the idx-th point of the view, '
            'phase counters. Builder layer on the real code: LegacyContext.__init__ altitudes and refusals; _start_point; the climb, '
            'cruise and descent loops by inductive invariants for any number of points (dry mass constant, mass / fuel non-increasing, '
            'time / distance non-decreasing and non-negative, position = track point at the recorded distance, altitude order per phase, '
            'never above cruise level or ceiling, exact point counts, end altitudes; a phase stops only by rejecting the mission); '
            'fly_climb / fly_descent arguments; _fly_iteration phase order and residual; fly() reports the first point\'s mass and fuel '
            'for any number of mass iterations; calc_starting_mass; GroundTrack location / step (shared with C15); interpolate_time '
            'against the np.interp contract for any number of points and query times. One known finding (tied hand-over times). '
            'Bounded part: sample missions flown natively with four option sets.',
            'performance model, weather and Geod by assumed contracts; floats as reals (so "all values finite" means no undefined '
            'operation: division by zero, sqrt of a negative); FieldMetadata.convert_in assumed identity on floats; a failed loop '
            'invariant is reported as a violation only when the native flights reproduce a broken rule, otherwise undecided',
            'contract-based deductive verification with loop invariants (AST->z3) + bounded native flights', 'DESIGN 2 C02'),
    'C06': ('other',
            'Deductive part on the real code: the unit conversion factors are mutually inverse over their exact literals; evaluate -> '
            'evaluate_impl maps each flight phase to its ROCD sub-table and refuses foreign flight rules; PerformanceTable.interpolate '
            'converts metres with the library factor, maps min / max to the extreme masses and builds one interpolator per phase '
            'from that phase\'s sub-table; Interpolator.__init__ grid fill for any number of rows by loop invariant (every row\'s values at '
            'the node of its flight level and mass; one-mass tables aligned with the sorted levels); Interpolator.__call__ for any '
            'number of flight levels against the scipy interpn contract: own grid and table axes per output, tabulated value at every '
            'node, between the cell\'s corner values inside, refusal outside; build_performance_table reproduces every PTF row. '
            'Bounded part: generated tables (2..5 levels, 4 row orders) through PerformanceModel.from_data incl. holes and repeated '
            'pairs; generated PTF texts through PTFData.load.',
            'scipy.interpolate.interpn, pandas (unique, itertuples, sort_values, drop_duplicates) and sorted / list.index by assumed '
            'contracts; floats as reals (an altitude whose flight level leaves the table by a few ulp of rounding is not part of the '
            'claim); table validation (pandas) and PTF regex parsing only bounded; continuity follows from the interpn contract and is '
            'not separately proved',
            'contract-based deductive verification (AST->z3, loop invariant) + bounded table / PTF stand-ins', 'DESIGN 2 C06'),
    'C04': ('other',
            'Deductive part on the real code, paths of any length: the antimeridian-crossing segment is cut where its straight map line '
            'meets +-pi, the two parts are measured by great-circle distance, the total is their sum and a valid divisor; the '
            'crossing segment\'s integrated values are split L1/total and L2/total (adding up to the value), every other segment\'s '
            'value goes to its part unchanged and in order; the result is the first part\'s pieces followed by the second part\'s with '
            'their values. Bounded part: the geometric core (grid-line intersections, piece lengths, fractions) through the real '
            'grid_trajectory against an exact piece-wise oracle: per segment the pieces add up to the value, never less and no more '
            'than the great-circle excess of the pieces; whole path = its segments.',
            'the vectorised core (_trajectory_intersection_points_and_cells_horizontal and the flatten / repeat / delete tail) is only '
            'bounded: 4x4 quarter-cell lattice, 3..4 point paths with altitude / time axes, random segments on 1..7 x 1..7 grids, '
            'antimeridian crossings on a global 4x8 grid; points on the outermost grid lines excluded; Geod and numpy by assumed '
            'contracts; shapely replaced by a stub (not installed, unused by trajectory gridding)',
            'contract-based deductive verification of the wrappers (AST->z3) + bounded oracle for the geometric core', 'DESIGN 2 C04/C05'),
    'C05': ('other',
            'Deductive part on the real code, paths of any length: crosses_dateline element-wise; the two parts of a crossing path '
            '(which points; the crossing point on the segment\'s map line, on +-pi / -+pi, with the altitude, time and state values of '
            'the segment\'s start point); each segment\'s altitude / time cell is its start point\'s (searchsorted contract); cell '
            'coordinates gathered from the grid axes by the core\'s indices in path order; all output arrays of one common length, '
            'with / without altitude and time axes, with and without a crossing. Bounded part: the geometric core against the exact '
            'piece-wise oracle: the cells crossed in path order (closed cells), length shares, start-point state / altitude / time, '
            'equal lengths, cells the path does not enter receive nothing.',
            'as C04; the share of a crossing segment is relative to the sum of the great-circle lengths of its two parts',
            'contract-based deductive verification of the wrappers (AST->z3) + bounded oracle for the geometric core', 'DESIGN 2 C04/C05'),
}
REASONS_TODO = 'check not built yet (work in progress; see DESIGN.md section 2)'


def main():
    props = [json.loads(l) for l in (V / 'properties.jsonl').read_text().splitlines() if l.strip()]
    checks = []
    na = []
    extra_na = json.loads((V / 'tools' / 'not_applicable.json').read_text()) if (V / 'tools' / 'not_applicable.json').exists() else {}
    for p in props:
        i = p['id']
        if i in CLAIMED:
            cat, text, note, tech, ref = CLAIMED[i]
            checks.append(dict(property_id=i, quick_cmd=f'./check {i} --tier quick',
                               thorough_cmd=f'./check {i} --tier thorough',
                               evidence_file=f'evidence/{i}.json',
                               replay_cmd_template=f'./check {i} --replay {{path}}', engine='pyvc',
                               level_claimed=dict(category=cat, text=text, design_ref=ref),
                               level_note=note, technique=tech))
        else:
            na.append(dict(property_id=i, reason=extra_na.get(i, REASONS_TODO)))
    m = dict(version=1, setup_cmd='./setup.sh',
             hooks=dict(guard='AEIC_VERIF',
                        enable='no source hooks: the verifier parses /repo/src with ast on every run and replays '
                               'counter-models against the unmodified package',
                        baseline_off_cmd='cd /repo && /venv/bin/python -m pytest -ra -q -p no:cacheprovider --timeout=900 --continue-on-collection-errors',
                        source_commits=[], add_only=True),
             engines=[dict(name='pyvc', path='pyvc/', serves_properties=sorted(CLAIMED),
                           kind_free_text='symbolic executor / VC generator over the Python AST of the real source, '
                                          'z3 back end (nlsat, cvc5 second opinions), sidecar contracts in contracts/')],
             checks=checks, not_applicable=na,
             notes='Exit codes of ./check: 0 held, 1 violation (VIOLATION line), 2 undecided, 3 checker crash. '
                   'Known findings live in KNOWN_FINDINGS.txt.')
    (V / 'MANIFEST.json').write_text(json.dumps(m, indent=1))
    try:
        import jsonschema
        jsonschema.validate(m, json.loads(Path('/root/.vp/MANIFEST.schema.json').read_text()))
        print('MANIFEST valid;', len(checks), 'checks')
    except ImportError:
        print('written (not validated)')


if __name__ == '__main__':
    main()
