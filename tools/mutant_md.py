#!/usr/bin/env python3
"""seeded/RESULTS.json -> markdown table (section 10.6 of DESIGN.md)."""
import json
from pathlib import Path
V = Path('/verif')
res = json.loads((V / 'seeded' / 'RESULTS.json').read_text())
print('| seeded change | what it changes | own check | obligations reported (first three) | other checks |')
print('|---|---|---|---|---|')
for name in sorted(res):
    r = res[name]
    prop = name.split('-')[0]
    meta = json.loads((V / 'seeded' / name / 'meta.json').read_text())
    summ = ' '.join(meta.get('summary', '').split())
    short = summ[:150].rsplit(' ', 1)[0] + ' ...' if len(summ) > 150 else summ
    short = short.replace('|', '/')
    own = r['checks'].get(prop, {})
    obs = [o.replace('|', '/') for o in own.get('violated', [])][:3]
    others = []
    for p, c in r['checks'].items():
        if p == prop:
            continue
        others.append(f"{p}: {'caught' if c['exit'] == 1 else 'exit ' + str(c['exit'])}")
    if meta.get('no_longer_breaks_property') and own.get('exit') == 0:
        print(f"| {name} | {short} | exit 0 - the change no longer breaks the property on the repaired tree (10.5) | - | - |")
        continue
    kind = {1: 'VIOLATION (exit 1)', 2: 'undecided (exit 2)', 0: '**missed** (exit 0)', 3: 'crash (exit 3)'}.get(own.get('exit'), str(own.get('exit')))
    port = ' (ported)' if r.get('patch') == 'patch.ported.diff' else ''
    print(f"| {name}{port} | {short} | {kind}, {own.get('wall', '?')} s | {'; '.join(obs)} | {', '.join(others) or '-'} |")
