#!/bin/sh
# run every registered quick check on the current tree (evidence is rewritten)
cd "$(dirname "$0")/.."
for id in $(.venv/bin/python -c "import json; print(' '.join(c['property_id'] for c in json.load(open('MANIFEST.json'))['checks']))"); do
  ./check $id --tier ${1:-quick} | tail -1
done
# engine cross-check (not a property check): CPython differential of the symbolic semantics; exit 3 = engine error
PYTHONPATH="$(pwd)" VERIF_SCRATCH="$(pwd)/scratch" .venv/bin/python tools/cpython_diff.py | tail -1
