#!/bin/sh
# tools/dev_mutant.sh <seeded-id> [check args]: run the property's check against a scratch export of /repo HEAD with the
# seeded change applied (does not touch /repo's working tree; scratch copy removed afterwards).
id="$1"; shift; prop=${id%%-*}
d=$(mktemp -d /tmp/dm-XXXXXX)
git -C /repo archive HEAD src tests/data | tar -x -C "$d"
p=/verif/seeded/$id/patch.diff; [ -f /verif/seeded/$id/patch.ported.diff ] && p=/verif/seeded/$id/patch.ported.diff
(cd "$d" && patch -s -p1 < "$p") || { rm -rf "$d"; echo "patch does not apply"; exit 9; }
AEIC_SRC=$d/src VERIF_EVIDENCE_DIR=/verif/scratch/evidence-dm-$id VERIF_REPLAY_DIR=/verif/scratch/replays-dm-$id /verif/check "$prop" "$@"; rc=$?
rm -rf "$d"; echo "exit=$rc"; exit $rc
