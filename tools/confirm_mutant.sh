#!/bin/sh
# tools/confirm_mutant.sh <Cxx> <a|b|c|d>: (MUT_BASE=/tmp/mut2 for the second round) confirm a seeded change in its scratch worktree (never in /repo):
# suite passes with the change, demo fails with it and passes without it.
id="$1"; x="$2"; base="${MUT_BASE:-/tmp/mut}"; wt=$base/$id; out=$base/out/$id/$x
cd "$wt" || exit 9
git checkout -q -- . ; git apply "$out/patch.diff" || { echo '{"applies": false}' > "$out/confirm.json"; exit 9; }
demo=$(ls "$out"/demo.py "$out"/test_demo.py 2>/dev/null | head -1)
run_demo() { case "$demo" in *test_demo.py) AEIC_ROOT=$wt PYTHONPATH=$wt/src /venv/bin/python -m pytest -q -p no:cacheprovider "$demo" >/dev/null 2>&1;; *) AEIC_ROOT=$wt PYTHONPATH=$wt/src timeout 900 /venv/bin/python "$demo" >/dev/null 2>&1;; esac; echo $?; }
PYTHONPATH=$wt/src /venv/bin/python -m pytest -q -p no:cacheprovider --timeout=900 > "$out/suite.log" 2>&1; suite_rc=$?
summary=$(tail -1 "$out/suite.log")
d_with=$(run_demo)
git checkout -q -- .
d_without=$(run_demo)
printf '{"applies": true, "suite_rc": %s, "suite_summary": "%s", "demo_rc_with_change": %s, "demo_rc_without_change": %s}\n' "$suite_rc" "$summary" "$d_with" "$d_without" > "$out/confirm.json"
cat "$out/confirm.json"
